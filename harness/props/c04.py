"""C04 — declared precedents cover every cell a formula actually reads.  DESIGN.md §7 C04.

Observation points (properties.jsonl C04 observe_at), all from OUTSIDE /repo (no hook commit was needed):
  * the calls made through `_C_`/`_R_` while one formula runs: the instance attributes `_evaluate` / `_evaluate_range`
    of an ExcelCompiler are replaced by recording wrappers BEFORE the eval context is built, so the wrappers are what
    `load_function` binds as `_C_` / `_R_`; a frame stack (pushed by a wrapper around the compiler's `_eval`) attributes
    a call to the formula cell whose compiled lambda made it (depth 0 = made by the lambda itself, not by the engine
    evaluating range members);
  * `formula.needed_addresses`, `python_code`;
  * `dep_graph.predecessors` / `networkx.ancestors`.
"""
import io
import itertools
import json
import logging
import tokenize

from harness import core

ID = 'C04'
LEAN_MODULE = 'Pycel.Props.C04'
NS = 'Pycel.Needed.'
THEOREMS = [NS + t for t in (
    'handlers_spec', 'addr_funcs_spec', 'ref_params_spec',
    'C04_scan_context', 'C04_scan_complete', 'C04_reads_covered',
    'C04_edges', 'C04_edges_after_abort', 'C04_range_members', 'C04_ancestors', 'C04_influence',
    'written_satisfiable', 'computed_not_written')]
DESIGN_REF = 'DESIGN.md §7 C04'
RULE = ('kind f: one formula (a tree over the reference forms plain / $ / sheet-qualified / quoted sheet / range / '
        'multi-colon / unbounded / defined name (cell, range, other sheet, multi-area) / R1C1, nested in operators, '
        'functions, intersections (2- and 3-way), comma unions, ROW/COLUMN, plus OFFSET/INDIRECT/SUBTOTAL/computed '
        'union as not-written forms) in a 3-sheet workbook under a random environment, through a real ExcelCompiler '
        'with the read trace; compared with the model: needed_addresses = scan(emit), python tokens = emit, traced '
        '_C_/_R_ calls = reads (written forms), dep_graph edges = genGraph on the observed needed lists. kind w: a '
        'random DAG workbook; oracle: change a value cell that is no ancestor of X -> a fresh compile gives the same '
        'X; change one that was read -> the running model agrees with a fresh compile. A case is non-trivial when the '
        'formula holds at least one reference.')
ASSUMPTIONS = [
    'the engine reads cells only through _evaluate/_evaluate_range (the trace wraps exactly these); the value fetch '
    'for a formula that EVALUATES TO an address (OFFSET/INDIRECT at top level, excelcompiler.py:846) bypasses them '
    'and is outside the written references',
    'Python tokenize is modelled by the token list (diffed on every case, incl. sheet titles over the alphabet Excel '
    'allows in quoted names); the emitter does not escape the address text: a title holding a double quote does not '
    'compile (no reads), `!` in a title is the C11 finding sheet.bang, `$` is stripped from the title and _R_/_C_ '
    'rewritten under reference operators (both code-following, not governed)',
    'under a reference operator / ROW / COLUMN the code rewrites _R_ / _C_ textually, also inside the address literal: '
    '`written` requires the address text to be a fixed point of that replacement (sheet names without _R_ / _C_); '
    'with such a sheet name declared precedents and reads are both rewritten to the same other sheet',
    'the re-parse of a printed address (str(x & y) handed to _R_) is the C11 round trip, not re-proved here',
    'library functions other than ROW/COLUMN receive values, never address objects, in written formulas '
    '(refs_wrapper would resolve an address argument through _C_/_R_; validated by the trace diff)',
]
TRUSTED = ['modelled, not verified: Python tokenize, openpyxl tokenizer / defined names / worksheet access, networkx']
REQUIRED_BUCKETS = ['f:plain', 'f:abs', 'f:sheet', 'f:range', 'f:multicolon', 'f:unbounded', 'f:name', 'f:multiarea',
                    'f:intersection', 'f:union', 'f:rowcol', 'f:computed', 'f:sheetname', 'w', 'h', 'h:failed-build', 'h:degenerate']
EXHAUSTIVE = False

SHEETS = ['Sheet1', 'Sheet2', 'Sh 2']
NAMES = {
    'name_cell': [('$B$2', 'Sheet1')],
    'name_rng': [('$A$1:$B$2', 'Sheet2')],
    'name_multi': [('$A$1:$A$2', 'Sheet1'), ('$C$3', 'Sheet1')],
    'name_col': [('$B:$B', 'Sheet1')],
    '_sp': [('$C$1:$C$3', 'Sh 2')],
}
POOL = [0, 1, 2, 3.5, -4, 10, 'x', 'abc', '', True, False, None, None, '#DIV/0!', '#N/A', '12']
COLS = 'ABCD'
NROWS = 5
OPS = {'add': '+', 'sub': '-', 'mul': '*', 'div': '/', 'concat': '&', 'eq': '=', 'lt': '<', 'gt': '>', 'le': '<=',
       'ge': '>=', 'ne': '<>', 'pow': '^', 'space': ' ', 'comma': ',', 'colon': ':'}


# ---------------------------------------------------------------------------------------------------------------
# trees

def R(t):
    return ['r', t]


def NUM(t):
    return ['n', str(t)]


def TXT(s):
    return ['t', '"' + s.replace('"', '""') + '"']


def B(op, l, r):
    return ['b', op, l, r]


def F(name, *args):
    return ['f', name, list(args)]


def render(t, parent_op=False):
    k = t[0]
    if k in ('r', 'n', 't'):
        return t[1]
    if k == 'l':
        return 'TRUE' if t[1] else 'FALSE'
    if k == 'u':
        s = '-' + render(t[1], True)
    elif k == 'p':
        s = render(t[1], True) + '%'
    elif k == 'b':
        sym = OPS[t[1]]
        s = render(t[2], True) + sym + render(t[3], True)
    elif k == 'f':
        return t[1] + '(' + ','.join(render(a, False) for a in t[2]) + ')'
    else:
        raise ValueError(t)
    return '(' + s + ')' if parent_op or (k == 'b' and t[1] == 'comma') else s


def cps(s):
    return ','.join(str(ord(c)) for c in s)


def tree_tokens(t):
    k = t[0]
    if k in ('r', 'n', 't'):
        return [f'{k}:{cps(t[1])}']
    if k == 'l':
        return [f'l:{int(t[1])}']
    if k == 'u':
        return ['u'] + tree_tokens(t[1])
    if k == 'p':
        return ['p'] + tree_tokens(t[1])
    if k == 'b':
        return [f'b:{t[1]}'] + tree_tokens(t[2]) + tree_tokens(t[3])
    if k == 'f':
        out = [f'f:{cps(t[1])}:{len(t[2])}']
        for a in t[2]:
            out += tree_tokens(a)
        return out
    raise ValueError(t)


def leaves(t):
    if t[0] == 'r':
        yield t[1]
    elif t[0] in ('u', 'p'):
        yield from leaves(t[1])
    elif t[0] == 'b':
        yield from leaves(t[2])
        yield from leaves(t[3])
    elif t[0] == 'f':
        for a in t[2]:
            yield from leaves(a)


def nodes(t):
    yield t
    if t[0] in ('u', 'p'):
        yield from nodes(t[1])
    elif t[0] == 'b':
        yield from nodes(t[2])
        yield from nodes(t[3])
    elif t[0] == 'f':
        for a in t[2]:
            yield from nodes(a)


# reference leaves by class
def ref_pool():
    pool = {
        'plain': ['A1', 'B2', 'C3', 'D4', 'a1'],
        'abs': ['$A$1', 'B$2', '$C3', '$A$1:$B$2', 'A$1:$B2'],
        'sheet': ['Sheet2!A1', 'Sheet1!B2', "'Sh 2'!A1", "'Sh 2'!C1:C3", 'Sheet2!A1:B2', "'Sheet2'!B2", 'Sheet2!$A$1'],
        'range': ['A1:B2', 'B2:C3', 'A1:A3', 'A1:D1', 'B1:B4', 'A2:C2', 'A1:C3', 'C3:D4', 'A1:A1'],
        'multicolon': ['A1:B2:C3', 'A1:A2:B1:B3', 'A1:B1:A3', 'C3:A1:B2', 'Sheet2!A1:A2:B2'],
        'unbounded': ['A:A', 'B:C', '1:1', '2:3', 'Sheet2!A:A', '$A:$A', "'Sh 2'!1:1"],
        'name': ['name_cell', 'name_rng', 'name_col', '_sp'],
        'multiarea': ['name_multi'],
        'r1c1': ['R1C1', 'R2C3', 'R1C1:R2C2'],
    }
    return pool


POOLS = ref_pool()
WRITTEN_CLASSES = ['plain', 'abs', 'sheet', 'range', 'multicolon', 'unbounded', 'name', 'r1c1']
RANGE_LIKE = ['A1:B2', 'B2:C3', 'A1:A3', 'B1:B4', 'A2:C2', 'A1:C3', '$A$1:$B$2', 'name_rng Sheet2!B2:C3',
              'Sheet2!A1:B2', "'Sh 2'!C1:C3", 'A:A', '1:1', 'B:C', '2:3', 'A1:B2:C3', 'B2', '$B$2', 'name_cell', '_sp']


def rand_ref(rng, classes=WRITTEN_CLASSES):
    return R(rng.choice(POOLS[rng.choice(classes)]))


def rand_inter(rng, depth=0):
    """an intersection of references on one sheet (2- or 3-way)"""
    sheet_sets = [
        ['A1:B2', 'B2:C3', 'B1:B4', 'A2:C2', 'A1:C3', '$A$1:$B$2', 'B:C', '2:3', 'A:A', '1:1', 'B2', 'A1:B2:C3',
         'name_cell', 'C3:D4', 'R1C1:R2C2'],
        ['Sheet2!A1:B2', 'Sheet2!B2:C3', 'name_rng', 'Sheet2!B:B', 'Sheet2!A1'],
        ["'Sh 2'!C1:C3", "'Sh 2'!A1:C1", '_sp', "'Sh 2'!1:1"],
    ]
    s = rng.choice(sheet_sets) if rng.random() < 0.8 else sheet_sets[0] + sheet_sets[1]
    a, b = R(rng.choice(s)), R(rng.choice(s))
    t = B('space', a, b)
    if depth == 0 and rng.random() < 0.3:
        c = R(rng.choice(s))
        t = B('space', t, c) if rng.random() < 0.5 else B('space', c, t)
    return t


FUNCS = [('SUM', 1, 3), ('MAX', 1, 2), ('MIN', 1, 2), ('AVERAGE', 1, 2), ('COUNT', 1, 2), ('IF', 3, 3), ('AND', 1, 2),
         ('OR', 1, 2), ('CONCATENATE', 1, 2), ('ISBLANK', 1, 1), ('ISNUMBER', 1, 1), ('ROWS', 1, 1), ('COLUMNS', 1, 1)]
ARITH = ['add', 'sub', 'mul', 'div', 'concat', 'eq', 'lt', 'gt', 'le', 'ge', 'ne', 'pow']


def rand_tree(rng, depth, allow_computed=False):
    x = rng.random()
    if depth <= 0 or x < 0.25:
        y = rng.random()
        if y < 0.75:
            return rand_ref(rng)
        if y < 0.9:
            return NUM(rng.choice([0, 1, 2, 7, 10]))
        return TXT(rng.choice(['a', 'x y', '', '_C_("A1")', 'q"r']))
    if x < 0.45:
        return B(rng.choice(ARITH), rand_tree(rng, depth - 1, allow_computed), rand_tree(rng, depth - 1, allow_computed))
    if x < 0.5:
        return ['u', rand_tree(rng, depth - 1, allow_computed)] if rng.random() < 0.6 else \
            ['p', rand_tree(rng, depth - 1, allow_computed)]
    if x < 0.62:
        return rand_inter(rng)
    if x < 0.7:
        which = rng.random()
        if which < 0.2:
            return F(rng.choice(['ROW', 'COLUMN']))
        arg = rand_inter(rng, 1) if which < 0.5 else rand_ref(rng, ['plain', 'abs', 'sheet', 'range', 'name'])
        return F(rng.choice(['ROW', 'COLUMN', 'row', 'Column']), arg)
    if x < 0.76:
        # union by comma inside a function
        return F('SUM', B('comma', rand_ref(rng), B('comma', rand_ref(rng), rand_ref(rng))
                          if rng.random() < 0.3 else rand_ref(rng)))
    if x < 0.8:
        return F(rng.choice(['SUM', 'COUNT', 'MAX']), R('name_multi'), *([rand_ref(rng)] if rng.random() < 0.5 else []))
    if x < 0.85:
        return F('INDEX', R(rng.choice(POOLS['range'])), NUM(rng.choice([1, 2])), NUM(rng.choice([1, 2])))
    if allow_computed and x < 0.93:
        y = rng.random()
        if y < 0.3:
            return F('OFFSET', rand_ref(rng, ['plain', 'range', 'abs']), NUM(rng.choice([0, 1])), NUM(rng.choice([0, 1])))
        if y < 0.5:
            return F('INDIRECT', TXT(rng.choice(['B2', 'A1:A2', 'Sheet2!A1'])))
        if y < 0.7:
            return F('SUBTOTAL', NUM(rng.choice([9, 1, 4, 109, 2])), rand_ref(rng, ['range', 'plain']))
        if y < 0.85:
            return F('SUM', B('colon', R('A1'), F('INDEX', R('A1:C4'), NUM(2), NUM(2))))
        return F('SUM', F('OFFSET', R('A1'), NUM(1), NUM(1), NUM(2), NUM(2)))
    name, lo, hi = rng.choice(FUNCS)
    n = rng.randint(lo, hi)
    return F(name, *[rand_tree(rng, depth - 1, allow_computed) for _ in range(n)])


def env_of(rng):
    return [rng.randrange(len(POOL)) for _ in range(3 * len(COLS) * NROWS)]


def fcase(tree, env, cell=(5, 6), sheet='Sheet1', tag=None, xs=None):
    c = {'k': 'f', 'tree': tree, 'env': env, 'cell': list(cell), 'sheet': sheet}
    if tag:
        c['tag'] = tag
    if xs is not None:
        c['xs'] = xs          # an extra worksheet with this (exotic) title, filled like Sheet2
    return c


# sheet titles over the alphabet Excel allows in quoted names (openpyxl refuses / \ ? * [ ] :)
XSHEETS = ['Costs (2)', 'R&D', "It's", "''q", 'Ünï ß', 'Лист1', '123', '2024', 'A1', 'XFD1', 'R1C1', 'TRUE', 'a#b',
           'a,b', 'x;y', 'a=b', '{x}', 'a%b', 'a+b', 'a@b', 'a^b', 'a~b', 'a.b-c', 'a<b>c', 'New\xa0Sheet', 'a-1',
           '(x)', '#REF', "o'c l", 'sum(1)']
# titles the emitter is known to mangle (C02/C11 territory, listed in the report): the address text is rewritten
# (`$` dropped, `_R_`/`_C_` -> `_REF_` under reference operators) or the literal is broken (`"`); only plain references
# are generated for them, and they are code-following (not governed)
QUIRK_SHEETS = ['_R_', 'x_C_y']


def q(name):
    return "'" + name.replace("'", "''") + "'"


def xsheet_cases(env, names, thorough):
    for nm in names:
        p = q(nm) + '!'
        forms = [R(p + 'A1'), B('add', R(p + '$B$2'), NUM(1)), F('SUM', R(p + 'A1:B2')), F('SUM', R(p + 'A1:B2:C3')),
                 F('SUM', R(p + 'A:A')), F('SUM', R(p + '2:2')),
                 F('SUM', B('space', R(p + 'A1:B2'), R(p + 'B2:C3'))),
                 F('SUM', B('space', R(p + 'B:C'), R(p + '2:3'))),
                 F('ROW', R(p + 'B3')), F('COLUMN', B('space', R(p + 'A1:B2'), R(p + 'B2:C3'))),
                 F('SUM', B('comma', R(p + 'A1'), R(p + 'B1:B2'))),
                 F('IF', B('gt', R(p + 'A1'), NUM(1)), R(p + 'B1'), R('Sheet1!A1'))]
        for t in forms:
            yield fcase(t, env, xs=nm)
        # the formula lives ON the exotic sheet: unqualified references, ROW() of its own cell
        for t in (F('SUM', R('A1:B2')), B('add', R('$A$1'), F('ROW')), F('SUM', B('space', R('A1:B2'), R('B2:C3'))),
                  F('SUM', R('A:A'))) if thorough else (B('add', R('$A$1'), F('ROW')), F('SUM', R('A1:B2'))):
            yield fcase(t, env, cell=(5, 6), sheet=nm, xs=nm)
    for nm in QUIRK_SHEETS:
        p = q(nm) + '!'
        for t in (R(p + 'A1'), F('SUM', R(p + 'A1:B2')), F('SUM', R(p + 'A:A'))):
            yield fcase(t, env, xs=nm)


def cases(tier, rng):
    thorough = tier == 'thorough'
    env0 = env_of(rng)
    env1 = env_of(rng)
    # --- deterministic core: every reference form alone, in SUM, under an operator, x two environments
    for cls, pool in POOLS.items():
        for ref in pool:
            for wrap in (lambda r: r, lambda r: F('SUM', r), lambda r: B('add', r, NUM(1)),
                         lambda r: F('IF', B('gt', R('A1'), NUM(1)), r, NUM(0))):
                t = wrap(R(ref))
                if cls == 'multiarea' and t[0] != 'f':
                    continue
                if cls == 'multiarea' and t[1] == 'IF':
                    continue
                for env in (env0, env1):
                    yield fcase(t, env)
            for fn in ('ROW', 'COLUMN'):
                if cls != 'multiarea':
                    yield fcase(F(fn, R(ref)), env0)
    yield fcase(F('ROW'), env0)
    yield fcase(B('add', F('COLUMN'), F('ROW')), env0, cell=(6, 2), sheet='Sheet2')
    # every pair of intersection operands on the main sheet, alone / in SUM / in ROW
    ops = ['A1:B2', 'B2:C3', 'B1:B4', 'A2:C2', '$A$1:$C$3', 'B:C', '2:3', 'B2', 'A1:B2:C3', 'name_cell', 'C3:D4']
    for a, b in itertools.product(ops, ops):
        t = B('space', R(a), R(b))
        yield fcase(F('SUM', t), env0)
        if thorough:
            yield fcase(t, env1)
            yield fcase(F('ROW', t), env0)
            yield fcase(B('add', t, NUM(1)), env0)
    for a, b, c in itertools.product(ops[:6], ops[:6], ops[:6]) if thorough else \
            itertools.product(ops[:3], ops[2:5], ops[3:6]):
        yield fcase(F('SUM', B('space', B('space', R(a), R(b)), R(c))), env0)
        yield fcase(F('SUM', B('space', R(a), B('space', R(b), R(c)))), env0)
    for t in (B('space', R('Sheet2!A1:B2'), R('name_rng')), B('space', R('Sheet2!A1:B2'), R('A1:B2')),
              B('space', R("'Sh 2'!C1:C3"), R('_sp')), B('space', R('A1:B2'), R('C3:D4')),
              B('space', B('space', R('A1:B2'), R('C3:D4')), R('A1:D4'))):
        yield fcase(F('SUM', t), env0)
        yield fcase(t, env0)
    # comma unions
    for a, b in itertools.product(['A1', 'A1:B2', 'Sheet2!A1', 'name_rng', 'B:B'], repeat=2):
        yield fcase(F('SUM', B('comma', R(a), R(b))), env0)
    yield fcase(F('SUM', B('comma', R('A1'), B('comma', R('B2'), R('C3')))), env0)
    yield fcase(F('INDEX', B('comma', R('A1:B2'), R('C3:D4')), NUM(1), NUM(1), NUM(2)), env0)
    # multi-area names as arguments
    for t in (F('SUM', R('name_multi')), F('SUM', R('name_multi'), R('A3')), F('MAX', NUM(1), R('name_multi')),
              F('COUNT', R('name_multi'), R('name_multi'))):
        yield fcase(t, env0)
        yield fcase(t, env1)
    # the not-written forms (computed addresses): scanner / emitter correspondence only
    for t in (F('OFFSET', R('A1'), NUM(1), NUM(1)), F('OFFSET', R('A1:B2'), NUM(1), NUM(1), NUM(2), NUM(2)),
              F('SUM', F('OFFSET', R('A1'), NUM(1), NUM(1), NUM(2), NUM(2))), F('INDIRECT', TXT('B2')),
              F('INDIRECT', TXT('A1:A2'), ['l', True]), F('SUM', F('INDIRECT', TXT('A1:A2'))),
              F('SUBTOTAL', NUM(9), R('A1:A3')), F('SUBTOTAL', NUM(109), R('A1:A3'), R('B1')),
              F('SUBTOTAL', NUM(1), R('A:A')),
              F('SUM', B('colon', R('A1'), F('INDEX', R('A1:C4'), NUM(2), NUM(2)))),
              B('colon', R('A1'), F('OFFSET', R('A1'), NUM(1), NUM(1))),
              F('OFFSET', R('name_cell'), NUM(0), NUM(1)), F('ROW', F('OFFSET', R('A1'), NUM(1), NUM(1)))):
        yield fcase(t, env0)
        yield fcase(t, env1)
    # the formula's own cell elsewhere, another sheet as the home sheet
    for sheet, cell in (('Sheet2', (4, 4)), ('Sh 2', (5, 1))):
        for ref in ('A1', 'A1:B2', 'Sheet1!B2', 'A:A', 'name_cell', 'name_multi', 'A1:B2:C3'):
            yield fcase(F('SUM', R(ref)), env0, cell=cell, sheet=sheet)
        yield fcase(F('SUM', B('space', R('A1:B2'), R('B2:C3'))), env0, cell=cell, sheet=sheet)
        yield fcase(B('add', F('ROW'), F('COLUMN', R('B2'))), env0, cell=cell, sheet=sheet)
    # --- sheet titles over the alphabet Excel allows in quoted names, in every reference form
    for c in xsheet_cases(env0, XSHEETS, thorough):
        yield c
    # --- random trees
    n = 2500 if thorough else 350
    for i in range(n):
        t = rand_tree(rng, rng.randint(1, 3), allow_computed=(i % 4 == 0))
        yield fcase(t, env_of(rng))
    # --- random workbooks for the "consequently" clause
    for i in range(160 if thorough else 30):
        yield {'k': 'w', 'seed': rng.randrange(10 ** 9), 'n': rng.randint(4, 9)}
    for t in UNBOUNDED_WITNESSES:
        yield t
    # --- construction histories (orders of building one range under several spellings, builds failing part-way)
    for t in hist_fixed():
        yield t
    for t in hist_degenerate(thorough):
        yield t
    for t in hist_multi_broken(thorough):
        yield t
    for i in range(400 if thorough else 60):
        yield hist_random(rng)


UNBOUNDED_WITNESSES = [
    {'k': 'w', 'fixed': {'Sheet1!A1': 1, 'Sheet1!A2': 2, 'Sheet1!A3': 3, 'Sheet1!C1': '=SUM(A:A)'},
     'target': 'Sheet1!C1'},
    {'k': 'w', 'fixed': {'Sheet1!A1': 1, 'Sheet1!B1': 2, 'Sheet1!C1': 3, 'Sheet1!A3': '=SUM(1:1)+1'},
     'target': 'Sheet1!A3'},
]


# ---------------------------------------------------------------------------------------------------------------
# implementation side

logging.getLogger('pycel').setLevel(logging.CRITICAL)


class Tracer:
    """records (reader cell, kind, address) for every _C_/_R_ call made by a compiled formula itself that RETURNED a
    value (a call that raises has read nothing); `done` = formula cells whose evaluation completed"""

    def __init__(self, sp):
        self.frames = []
        self._reads = []
        self.done = set()
        ev, evr = sp._evaluate, sp._evaluate_range
        sp._evaluate = lambda address: self._call('C', ev, address)
        sp._evaluate_range = lambda address: self._call('R', evr, address)
        inner = sp.eval          # builds the eval context: the wrappers above become _C_ / _R_

        def _eval(cell, cse_array_address=None):
            self.frames.append([cell, 0])
            try:
                v = inner(cell, cse_array_address)
                self.done.add(str(cell.address))
                return v
            finally:
                self.frames.pop()
        sp._eval = _eval

    @property
    def reads(self):
        return [r for r in self._reads if r is not None]

    def _call(self, kind, f, address):
        fr = self.frames[-1] if self.frames else None
        slot = None
        if fr is not None:
            if fr[1] == 0:
                slot = len(self._reads)
                self._reads.append((str(fr[0].address), kind, str(address)))
            fr[1] += 1
        try:
            return f(address)
        except BaseException:
            if slot is not None:
                self._reads[slot] = None
            raise
        finally:
            if fr is not None:
                fr[1] -= 1


def make_wb(cells, names=None):
    import openpyxl
    from openpyxl.workbook.defined_name import DefinedName
    wb = openpyxl.Workbook()
    sheets = {}
    for s in SHEETS:
        sheets[s] = wb.active if not sheets else wb.create_sheet(s)
        sheets[s].title = s
    for addr, v in cells.items():
        sheet, coord = addr.rsplit('!', 1)
        if sheet not in sheets:
            sheets[sheet] = wb.create_sheet(sheet)
        sheets[sheet][coord] = v
    for n, dests in (names or {}).items():
        text = ','.join(("'%s'" % ws if ' ' in ws else ws) + '!' + alias for alias, ws in dests)
        wb.defined_names[n] = DefinedName(name=n, attr_text=text)
    return wb


def compiler(cells, names=None):
    from pycel import ExcelCompiler
    sp = ExcelCompiler(excel=make_wb(cells, names))
    return sp, Tracer(sp)


def grid_cells(env):
    cells = {}
    i = 0
    for s in SHEETS:
        for c in COLS:
            for r in range(1, NROWS + 1):
                v = POOL[env[i]]
                i += 1
                if v is not None:
                    cells[f'{s}!{c}{r}'] = v
    # a few formula cells inside the grid so that reads reach formulas and ranges of formulas
    cells['Sheet1!D1'] = '=A1+1'
    cells['Sheet1!D2'] = '=SUM(A1:A2)'
    cells['Sheet2!B2'] = '=Sheet1!B2'
    return cells


def covers(d, c):
    """cell c (AddressCell) is one of the cells address d denotes (0 = unbounded)"""
    if d.sheet != c.sheet:
        return False
    r1, r2, c1, c2 = d.start.row, d.end.row, d.start.col_idx, d.end.col_idx
    return (r1 == 0 or r2 == 0 or r1 <= c.row <= r2) and (c1 == 0 or c2 == 0 or c1 <= c.col_idx <= c2)


def cells_of(sp, addr, cap=400):
    from pycel.excelutil import AddressRange, flatten
    try:
        a = AddressRange(addr)
        if a.is_range and a.is_unbounded_range:
            a = sp.excel.get_range(a).address
    except Exception:   # noqa  (an unprintable result of unbounded & unbounded, e.g. 'B:C1048575': C11's domain)
        return []
    if not a.is_range:
        return [a]
    out = list(itertools.islice(flatten(a.resolve_range), cap))
    return out


def graph_oracle(sp, tracer, skip_reader=None):
    """the property over the implementation's own observations; returns a list of failure texts"""
    import networkx as nx
    from pycel.excelutil import ERROR_CODES
    from pycel.excelcompiler import _CellRange
    fails = []
    g = sp.dep_graph
    for n in g.nodes:
        if sp.cell_map.get(n.address.address) is not n:
            fails.append(f'dep_graph holds a node for {n.address.address} that is not the object in cell_map '
                         f'(edges of the replaced object are orphaned)')
            break
    by_reader = {}
    for reader, kind, addr in tracer.reads:
        by_reader.setdefault(reader, []).append((kind, addr))
    for reader, rds in by_reader.items():
        x = sp.cell_map.get(reader)
        if x is None or not x.formula or reader == skip_reader:
            continue
        needed = list(x.formula.needed_addresses)
        preds = set(g.predecessors(x)) if x in g else set()
        anc = nx.ancestors(g, x) if x in g else set()
        for d in (needed if reader in tracer.done else ()):
            dn = sp.cell_map.get(d.address)
            if dn is None or dn not in preds:
                fails.append(f'{reader}: declared precedent {d.address} has no edge to it')
        for kind, addr in rds:
            if addr in ERROR_CODES:
                continue
            for c in cells_of(sp, addr):
                if not any(covers(d, c) for d in needed):
                    fails.append(f'{reader}: read {addr} (cell {c.address}) is in no declared precedent '
                                 f'{[d.address for d in needed]}')
                    break
                cn = sp.cell_map.get(c.address)
                if cn is None:
                    fails.append(f'{reader}: read cell {c.address} has no node')
                    break
                if cn is x:
                    continue
                # a path cn -> ... -> x whose inner nodes are ranges containing the cell
                ok = False
                seen, todo = {x}, [x]
                while todo and not ok:
                    n = todo.pop()
                    for p in g.predecessors(n):
                        if p is cn:
                            ok = True
                            break
                        if p not in seen and p.address.is_range and covers(p.address, c):
                            seen.add(p)
                            todo.append(p)
                if not ok or cn not in anc:
                    fails.append(f'{reader}: read cell {c.address} (of {addr}) is not an ancestor through '
                                 f'range nodes containing it')
                    break
    read_ranges = {a for _, k, a in tracer.reads if k == 'R'}
    for key, node in list(sp.cell_map.items()):
        if isinstance(node, _CellRange) and not node.formula and key in read_ranges:
            preds = set(g.predecessors(node)) if node in g else set()
            for m in node:
                mn = sp.cell_map.get(m.address)
                if mn is None or mn not in preds:
                    fails.append(f'range node {key}: member {m.address} has no edge to it')
                    break
    return fails


def graph_dump(sp, seed_addr):
    """the observed workbook as a Book for the model's genGraph + the implementation's edge list"""
    from pycel.excelcompiler import _CellRange
    keys = sorted(sp.cell_map)
    idx = {k: i for i, k in enumerate(keys)}
    rows = []
    for k in keys:
        n = sp.cell_map[k]
        needed = [a.address for a in n.needed_addresses]
        has = isinstance(n, _CellRange) or bool(n.formula)
        if isinstance(n, _CellRange) and not n.formula:
            parts = needed
        elif isinstance(n, _CellRange):
            parts = [a.address for a in n]          # CSE range: its cells are built with it
        elif n.address.is_range:
            parts = needed                          # reference cell of an unbounded range: the bounded range
        else:
            parts = []
        if any(a not in idx for a in needed + parts):
            return None
        rows.append((needed, has, parts))
    edges = sorted({(idx[str(a.address)], idx[str(b.address)]) for a, b in sp.dep_graph.edges()
                    if str(a.address) in idx and str(b.address) in idx})
    line = f'c04 g {len(keys)} {idx[seed_addr]} ' + ' '.join(
        (','.join(str(idx[a]) for a in nd) or '-') + f' {int(has)} ' + (','.join(str(idx[a]) for a in ps) or '-')
        for nd, has, ps in rows)
    return line, ';'.join(f'{a}>{b}' for a, b in edges)


def py_tokens(code):
    toks = []
    for t in tokenize.generate_tokens(io.StringIO(code).readline):
        if t.type in (tokenize.NEWLINE, tokenize.ENDMARKER, tokenize.NL, tokenize.ENCODING):
            continue
        toks.append(t.string)
    return ' '.join(toks)


_CACHE = {}


def run_f(c):
    key = json.dumps(c, sort_keys=True)
    if key in _CACHE:
        return _CACHE[key]
    from pycel.excelutil import AddressCell
    col, row = c['cell']
    home = AddressCell((col, row, col, row), sheet=c['sheet']).address
    cells = grid_cells(c['env'])
    if c.get('xs'):
        for k, v in list(cells.items()):
            if k.startswith('Sheet2!') and not (isinstance(v, str) and v.startswith('=')):
                cells[c['xs'] + '!' + k.split('!', 1)[1]] = v
    cells[home] = '=' + render(c['tree'])
    sp, tr = compiler(cells, NAMES)
    exc = ''
    try:
        sp.evaluate(home)
    except Exception as e:   # noqa
        exc = type(e).__name__
    x = sp.cell_map.get(home)
    out = {'exc': exc, 'raise': False, 'gline': None, 'gimpl': None}
    try:
        code = x.formula.python_code
        needed = [a.address for a in x.formula.needed_addresses]
    except Exception as e:   # noqa
        out['raise'] = True
        out['exc'] = type(e).__name__
        _CACHE[key] = out
        return out
    out['needed'] = needed
    out['tokens'] = py_tokens(code)
    out['reads'] = [f'{k}={a}' for r, k, a in tr.reads if r == home and a not in
                    ('#NULL!', '#VALUE!', '#REF!', '#NAME?', '#DIV/0!', '#N/A', '#NUM!')]
    out['fails'] = graph_oracle(sp, tr, skip_reader=None if governed(c) else home)
    gd = graph_dump(sp, home) if not exc else None
    if gd:
        out['gline'], out['gimpl'] = gd
    _CACHE[key] = out
    return out


def canon(v):
    if isinstance(v, float) and v == int(v):
        v = int(v)
    return repr(v)


def wb_cells(c):
    if 'fixed' in c:
        return dict(c['fixed']), c['target']
    import random
    rng = random.Random(c['seed'])
    n = c['n']
    cells = {}
    addrs = []
    for i in range(n):
        a = f'Sheet1!{COLS[i % 3]}{i // 3 + 1}'
        if i < 3 or rng.random() < 0.35:
            cells[a] = rng.choice([1, 2, 3, 5, 7, 'x', 10])
        else:
            refs = [x.split('!')[1] for x in addrs]
            forms = [lambda: rng.choice(refs), lambda: f'{rng.choice(refs)}:{rng.choice(refs)}',
                     lambda: f'{rng.choice("ABC")}:{rng.choice("ABC")}' if i // 3 + 1 > 3 else rng.choice(refs),
                     lambda: f'{rng.choice(refs)}:{rng.choice(refs)} {rng.choice(refs)}:{rng.choice(refs)}']
            parts = []
            for _ in range(rng.randint(1, 3)):
                parts.append(rng.choice(forms)())
            parts = [p for p in parts if not _reversed(p)]
            if not parts:
                parts = [rng.choice(refs)]
            cells[a] = '=SUM(' + ','.join(parts) + ')' + rng.choice(['', '+1', f'+{rng.choice(refs)}'])
        addrs.append(a)
    # unbounded references may not include the formula's own row/column region: keep them to value columns only
    target = [a for a in addrs if isinstance(cells[a], str) and cells[a].startswith('=')]
    return cells, (target[-1] if target else addrs[-1])


def _reversed(p):
    from pycel.excelutil import AddressRange
    try:
        for part in p.split(' '):
            a = AddressRange(part)
            if a.is_range and not a.is_unbounded_range and (
                    a.start.row > a.end.row or a.start.col_idx > a.end.col_idx):
                return True
    except Exception:   # noqa
        return True
    return False


def run_w(c):
    key = json.dumps(c, sort_keys=True)
    if key in _CACHE:
        return _CACHE[key]
    import networkx as nx
    cells, target = wb_cells(c)
    fails = []
    out = {'fails': fails, 'gline': None, 'gimpl': None, 'exc': ''}
    sp, tr = compiler(cells)
    try:
        v0 = sp.evaluate(target)
    except Exception as e:   # noqa   (a cycle made by an unbounded reference: not this property's business)
        out['exc'] = type(e).__name__
        _CACHE[key] = out
        return out
    fails += graph_oracle(sp, tr)
    gd = graph_dump(sp, target)
    if gd:
        out['gline'], out['gimpl'] = gd
    x = sp.cell_map[target]
    anc = {str(a.address) for a in nx.ancestors(sp.dep_graph, x)} if x in sp.dep_graph else set()
    values = [a for a, v in cells.items() if not (isinstance(v, str) and v.startswith('='))]
    for a in values:
        if a == target:
            continue
        new = 1000 + len(a)
        changed = dict(cells)
        changed[a] = new
        spf, _ = compiler(changed)
        try:
            vf = spf.evaluate(target)
        except Exception as e:   # noqa
            continue
        if a not in anc:
            if canon(vf) != canon(v0):
                fails.append(f'{a} is no ancestor of {target} in dep_graph, yet changing it to {new} changes '
                             f'{target} from {canon(v0)} to {canon(vf)} (fresh compile)')
        else:
            sp2, _ = compiler(cells)
            sp2.evaluate(target)
            sp2.set_value(a, new)
            v2 = sp2.evaluate(target)
            if canon(v2) != canon(vf):
                fails.append(f'after set_value({a}, {new}) the running model gives {target} = {canon(v2)}, a fresh '
                             f'compile {canon(vf)}')
    _CACHE[key] = out
    return out



# ---------------------------------------------------------------------------------------------------------------
# kind h: construction histories (several evaluate / set_value calls, builds that fail part-way)

BROKEN = ['=Missing!A1+1', "='[other.xlsx]Sheet1'!A1+1", '=SUM(Missing!A1:A2)', "='No Such'!B2*2"]


def hist_fixed():
    """deterministic histories: construction orders of one range under several spellings, failed builds"""
    col = {'Sheet1!A1': 1, 'Sheet1!A2': 2, 'Sheet1!A3': 3}
    out = []
    # bounded range first, then the unbounded spelling of the same cells, and vice versa; sheet-qualified spellings
    spell = ['=SUM(A1:A3)', '=SUM(A:A)', '=SUM(Sheet1!A1:A3)', '=SUM($A$1:$A$3)+0', '=SUM(Sheet1!A:A)', '=SUM(A1:A3 A:A)',
             '=SUM(A:A A1:A3)', '=A1+A2+A3']
    for f1, f2 in itertools.permutations(spell, 2):
        cells = dict(col)
        cells['Sheet1!C1'] = f1
        cells['Sheet1!D1'] = f2
        out.append({'k': 'h', 'cells': cells, 'steps': [['ev', 'Sheet1!C1'], ['ev', 'Sheet1!D1'],
                                                         ['set', 'Sheet1!A2', 20], ['ev', 'Sheet1!D1'],
                                                         ['ev', 'Sheet1!C1']]})
    row = {'Sheet1!A1': 1, 'Sheet1!B1': 2, 'Sheet1!C1': 3}
    for f1, f2 in itertools.permutations(['=SUM(A1:C1)', '=SUM(1:1)', '=SUM(Sheet1!1:1)+1'], 2):
        cells = dict(row)
        cells['Sheet1!A3'] = f1
        cells['Sheet1!B3'] = f2
        out.append({'k': 'h', 'cells': cells, 'steps': [['ev', 'Sheet1!A3'], ['ev', 'Sheet1!B3'],
                                                         ['set', 'Sheet1!B1', 20], ['ev', 'Sheet1!B3'],
                                                         ['ev', 'Sheet1!A3']]})
    # a range evaluated directly before / after the formulas that use it
    for order in itertools.permutations([['ev', 'Sheet1!A1:A3'], ['ev', 'Sheet1!A:A'], ['ev', 'Sheet1!C1'],
                                         ['ev', 'Sheet1!D1']], 4):
        cells = dict(col)
        cells['Sheet1!C1'] = '=SUM(A1:A3)'
        cells['Sheet1!D1'] = '=SUM(A:A)+1'
        out.append({'k': 'h', 'cells': cells, 'steps': [list(x) for x in order] +
                    [['set', 'Sheet1!A3', 30], ['ev', 'Sheet1!D1'], ['ev', 'Sheet1!C1']]})
    # failed builds: a formula that cannot be built, evaluated in one pass with healthy siblings
    for bad in BROKEN:
        for top in ('=C1+B1', '=B1+C1', '=SUM(B1:C1)', '=SUM(C1,B1)', '=IF(C1>0,C1,B1)'):
            cells = {'Sheet1!A1': 1, 'Sheet1!A2': 5, 'Sheet1!C1': '=A1*2', 'Sheet1!B1': bad, 'Sheet1!E1': top,
                     'Sheet1!F1': '=C1+1', 'Sheet1!G1': '=SUM(A1:A2)+C1'}
            for later in (['Sheet1!F1'], ['Sheet1!G1', 'Sheet1!F1'], ['Sheet1!C1']):
                out.append({'k': 'h', 'cells': cells, 'steps': [['ev', 'Sheet1!E1']] + [['ev', a] for a in later] +
                            [['set', 'Sheet1!A1', 10]] + [['ev', a] for a in later]})
        cells = {'Sheet1!A1': 1, 'Sheet1!A2': 5, 'Sheet1!C1': '=A1*2', 'Sheet1!B1': bad, 'Sheet1!F1': '=C1+1'}
        out.append({'k': 'h', 'cells': cells, 'steps': [['evl', ['Sheet1!F1', 'Sheet1!B1', 'Sheet1!C1']],
                                                         ['ev', 'Sheet1!F1'], ['set', 'Sheet1!A1', 10],
                                                         ['ev', 'Sheet1!F1']]})
        out.append({'k': 'h', 'cells': cells, 'steps': [['evl', ['Sheet1!B1', 'Sheet1!F1']],
                                                         ['ev', 'Sheet1!F1'], ['set', 'Sheet1!A1', 10],
                                                         ['ev', 'Sheet1!F1']]})
    return out


def hist_degenerate(thorough):
    """sheets whose used area is one cell / one column / one row, so that an unbounded reference bounds to a single
    cell or to the very range another formula names; both build orders; exotic titles of the data sheet"""
    out = []
    areas = {'cell': {'A1': 4}, 'col': {'A1': 4, 'A2': 5, 'A3': 6}, 'row': {'A1': 4, 'B1': 5, 'C1': 6},
             'cellB2': {'B2': 4}}
    titles = ['Data', 'Costs (2)', 'R&D', "It's", '123'] if thorough else ['Data', 'Costs (2)', "It's"]
    for title in titles:
        p = (q(title) if title != 'Data' else 'Data') + '!'
        for kind, area in areas.items():
            first = sorted(area)[0]
            direct = [f'={p}{first}*2', f'=SUM({p}{sorted(area)[0]}:{sorted(area)[-1]})', f'={p}${first[0]}${first[1:]}+0']
            unb = [f'=SUM({p}A:A)', f'=SUM({p}1:1)', f'=SUM({p}A:C)', f'=SUM({p}A:A {p}1:1)', f'=SUM({p}B:B)+SUM({p}2:2)']
            for d in direct:
                for u in unb:
                    for order in (('B1', 'C1'), ('C1', 'B1')):
                        cells = {f'{title}!{k}': v for k, v in area.items()}
                        cells['Calc!B1'] = d
                        cells['Calc!C1'] = u
                        cells['Calc!D1'] = '=B1+C1'
                        steps = [['ev', f'Calc!{order[0]}'], ['ev', f'Calc!{order[1]}'],
                                 ['set', f'{title}!{first}', 40], ['ev', 'Calc!C1'], ['ev', 'Calc!B1'], ['ev', 'Calc!D1'],
                                 ['set', f'{title}!{first}', 7], ['ev', 'Calc!D1']]
                        out.append({'k': 'h', 'deg': kind, 'cells': cells, 'steps': steps})
            # the unbounded address evaluated directly, before / after the formulas
            cells = {f'{title}!{k}': v for k, v in area.items()}
            cells['Calc!B1'] = direct[0]
            cells['Calc!C1'] = unb[0]
            for steps in ([['ev', f'{title}!A:A'], ['ev', 'Calc!B1'], ['ev', 'Calc!C1']],
                          [['ev', 'Calc!B1'], ['ev', f'{title}!A:A'], ['ev', 'Calc!C1']],
                          [['ev', 'Calc!C1'], ['ev', f'{title}!1:1'], ['ev', 'Calc!B1']]):
                out.append({'k': 'h', 'deg': kind, 'cells': cells, 'steps': steps +
                            [['set', f'{title}!{first}', 40], ['ev', 'Calc!B1'], ['ev', 'Calc!C1']]})
    return out


def hist_multi_broken(thorough):
    """two or three unbuildable formulas in ONE evaluated batch (a range, a list, one parent formula) at different queue
    positions, healthy siblings between them; afterwards every healthy sibling is evaluated, its precedents are set and
    it is evaluated again (edge / ancestor / stale oracles after every step)"""
    out = []
    bads = ['=C{r}+[other.xlsx]Sheet1!A{r}', '=C{r}+Missing!A{r}', "='No Such'!B{r}*2+C{r}", '=SUM(Missing!A1:A2)+C{r}']
    rows = (1, 2, 3, 4)
    patterns = [(1, 2), (1, 4), (3, 4), (2, 3), (1, 2, 3), (1, 3, 4), (2, 3, 4), (1, 2, 3, 4)]
    if not thorough:
        patterns = [(1, 2), (1, 4), (3, 4), (1, 2, 3), (2, 3, 4), (1, 2, 3, 4)]
    for bi, pat in enumerate(patterns):
        for variant in range(3 if thorough else 2):
            cells = {}
            for r in rows:
                cells[f'S!A{r}'] = r
                cells[f'S!B{r}'] = f'=A{r}*10'
                cells[f'S!C{r}'] = f'=B{r}+1'
                if r in pat:
                    cells[f'S!D{r}'] = bads[(bi + r + variant) % len(bads)].format(r=r)
                else:
                    cells[f'S!D{r}'] = f'=C{r}+A{r}'
            if variant == 1 and len(pat) >= 2:
                # one unbuildable cell reads another one
                cells[f'S!D{pat[-1]}'] = f'=D{pat[0]}+C{pat[-1]}+Missing!A1'
            cells['S!E1'] = '=SUM(D1:D4)'
            cells['S!E2'] = '=D1+D2+D3+D4'
            cells['S!E3'] = '=D4+D3+D2+D1'
            batches = [[['ev', 'S!D1:D4']], [['evl', [f'S!D{r}' for r in rows]]], [['ev', 'S!E1']], [['ev', 'S!E2']],
                       [['ev', 'S!E3']], [['ev', 'S!D1:D4'], ['ev', 'S!D1:D4'], ['ev', 'S!D1:D4']],
                       [['ev', 'S!E2'], ['ev', 'S!E3'], ['ev', 'S!E1']]]
            if not thorough:
                batches = batches[:1] + batches[2:4] + batches[5:]
            healthy = [f'S!C{r}' for r in rows] + [f'S!B{r}' for r in rows] + \
                      [f'S!D{r}' for r in rows if r not in pat]
            for batch in batches:
                steps = list(batch) + [['ev', a] for a in healthy]
                for r in rows:
                    steps.append(['set', f'S!A{r}', r + 100])
                    steps.append(['ev', f'S!C{r}'])
                steps += [['ev', a] for a in healthy]
                out.append({'k': 'h', 'multi': len(pat), 'cells': cells, 'steps': steps})
    return out


def hist_random(rng):
    n = rng.randint(5, 9)
    c = {'k': 'w', 'seed': rng.randrange(10 ** 9), 'n': n}
    cells, _ = wb_cells(c)
    forms = [a for a, v in cells.items() if isinstance(v, str) and v.startswith('=')]
    values = [a for a in cells if a not in forms]
    if forms and rng.random() < 0.5:
        # one formula cell becomes unbuildable, some formula refers to it
        for bad in rng.sample(forms, min(len(forms), rng.choice([1, 1, 2, 3]))):
            cells[bad] = rng.choice(BROKEN)
    if len(values) >= 2 and rng.random() < 0.6:
        colname = rng.choice('AB')
        cells['Sheet1!D9'] = f'=SUM({colname}:{colname})'
        forms.append('Sheet1!D9')
    steps = []
    for _ in range(rng.randint(3, 7)):
        x = rng.random()
        if x < 0.55 and forms:
            steps.append(['ev', rng.choice(forms)])
        elif x < 0.65 and len(forms) > 1:
            steps.append(['evl', rng.sample(forms, 2)])
        elif x < 0.75:
            a, b = rng.choice(values), rng.choice(values)
            steps.append(['ev', rng.choice([f'{a}:{b.split("!")[1]}', f'Sheet1!{rng.choice("AB")}:{rng.choice("AB")}'])])
        else:
            steps.append(['set', rng.choice(values), rng.choice([11, 23, 0, 'q'])])
    steps = [st for st in steps if not (st[0] == 'ev' and _reversed(st[1].split('!')[1]))]
    if rng.random() < 0.4:
        # the same workbook on a sheet with an exotic title (formulas are unqualified, addresses carry the title)
        title = rng.choice(XSHEETS)
        ren = lambda a: title + '!' + a.split('!', 1)[1]    # noqa
        cells = {ren(a): (v.replace('Sheet1!', q(title) + '!') if isinstance(v, str) else v) for a, v in cells.items()}
        steps = [[st[0], ([ren(a) for a in st[1]] if isinstance(st[1], list) else ren(st[1]))] + st[2:] for st in steps]
    return {'k': 'h', 'cells': cells, 'steps': steps}


def structural_oracle(sp, tracer):
    """every formula cell whose evaluation completed has an edge from each needed address"""
    fails = []
    g = sp.dep_graph
    for key, node in list(sp.cell_map.items()):
        if not node.formula or key not in tracer.done:
            continue
        try:
            needed = list(node.needed_addresses)
        except Exception:   # noqa
            continue
        preds = set(g.predecessors(node)) if node in g else set()
        for d in needed:
            dn = sp.cell_map.get(d.address)
            if dn is None or dn not in preds:
                fails.append(f'{key}: evaluated, but declared precedent {d.address} has no edge to it')
                break
    return fails


def run_h(c):
    key = json.dumps(c, sort_keys=True)
    if key in _CACHE:
        return _CACHE[key]
    cells = dict(c['cells'])
    fails = []
    out = {'fails': fails, 'gline': None, 'gimpl': None, 'exc': ''}
    sp, tr = compiler(cells)
    current = dict(cells)
    good = []          # formula cells / ranges that evaluated without an exception, in order
    trace = []
    for i, st in enumerate(c['steps']):
        try:
            if st[0] == 'ev':
                sp.evaluate(st[1])
                if st[1] not in good:
                    good.append(st[1])
                trace.append('ok')
            elif st[0] == 'evl':
                sp.evaluate(list(st[1]))
                trace.append('ok')
            else:
                sp.set_value(st[1], st[2])
                current[st[1]] = st[2]
                trace.append('ok')
        except Exception as e:   # noqa
            trace.append(type(e).__name__)
        where = f'after step {i} {st}: '
        for f in graph_oracle(sp, tr)[:2] + structural_oracle(sp, tr)[:2]:
            fails.append(where + f)
        # stale-value oracle: every target that evaluated so far agrees with a fresh compile of the current inputs
        targets = list(good)
        for a in sorted(tr.done):
            n = sp.cell_map.get(a)
            if n is not None and not n.address.is_range and a not in targets:
                targets.append(a)
        if targets:
            spf, _ = compiler(current)
            for a in targets:
                try:
                    vf = spf.evaluate(a)
                except Exception:   # noqa
                    continue
                try:
                    v = sp.evaluate(a)
                except Exception as e:   # noqa
                    v = f'!{type(e).__name__}'
                if canon(v) != canon(vf):
                    fails.append(where + f'{a} = {canon(v)} on the running model, {canon(vf)} on a fresh compile')
            for f in graph_oracle(sp, tr)[:2] + structural_oracle(sp, tr)[:2]:
                if where + f not in fails:
                    fails.append(where + f)
        if fails:
            break
    out['exc'] = ','.join(trace)
    _CACHE[key] = out
    return out


def impl(c):
    if c['k'] == 'f':
        o = run_f(c)
        if o['raise']:
            return '!raise'
        s = 'N:' + ';'.join(o['needed']) + '|R:' + ';'.join(o['reads']) + '|T:' + o['tokens']
        s += '|X:' + o['exc'] + '|G:' + (o['gimpl'] or '-')
    elif c['k'] == 'h':
        o = run_h(c)
        s = 'X:' + o['exc']
    else:
        o = run_w(c)
        s = 'G:' + (o['gimpl'] or '-') + '|X:' + o['exc']
    return s + '|O:' + ' ## '.join(o['fails'][:3])


def model_lines(c):
    lines = []
    if c['k'] == 'f':
        names = []
        for n, dests in NAMES.items():
            names.append(f's:{cps(n)} {len(dests)} ' + ' '.join(f's:{cps(a)} s:{cps(w)}' for a, w in dests))
        col, row = c['cell']
        lines.append(f"c04 f s:{cps(c['sheet'])} {col} {row} {len(NAMES)} " + ' '.join(names) + ' ' +
                     ' '.join(tree_tokens(c['tree'])))
        o = run_f(c)
    elif c['k'] == 'h':
        return ['c04 noop', 'c04 noop']
    else:
        lines.append('c04 noop')
        o = run_w(c)
    lines.append(o['gline'] or 'c04 noop')
    return lines


def _fields(s):
    out = {}
    for part in s.split('|'):
        if len(part) > 1 and part[1] == ':':
            out.setdefault(part[0], part[2:])
    return out


def same(impl_out, model_out):
    if model_out is None:
        return False
    m_f, _, m_g = model_out.rpartition('|')       # the graph answer holds no '|'
    i = _fields(impl_out)
    if impl_out.startswith('!raise'):
        return m_f.startswith('!raise')
    if 'N' in i:
        if m_f.startswith('!'):
            return False
        m = _fields(m_f)
        if i['N'] != m.get('N') or i['T'] != m.get('T'):
            return False
        if m.get('W') == '1':
            ir = i['R'].split(';') if i['R'] else []
            mr = m['R'].split(';') if m['R'] else []
            if i['X']:
                if ir != mr[:len(ir)]:
                    return False
            elif ir != mr:
                return False
    if not m_g.startswith('!') and i.get('G', '-') != '-':
        edges, todos, cmap = m_g.split('~')
        if todos != '0':
            return False
        built = set(cmap.split(',')) if cmap else set()
        # nodes the engine created while EVALUATING (the range an intersection computes, an OFFSET target) are not
        # part of the graph construction from the seed: compare the edges among the nodes the construction built
        ie = [e for e in i['G'].split(';') if e and all(x in built for x in e.split('>'))]
        if ie != [e for e in edges.split(';') if e]:
            return False
    return True


def governed(c):
    # the property fixes: which reads are covered, which edges exist.  Emission details of the forms it does not
    # speak about (computed references) are code-following.
    if c['k'] in ('w', 'h'):
        return True
    if c.get('xs') in QUIRK_SHEETS:
        return False
    return not any(n[0] == 'f' and n[1].lower() in ('offset', 'indirect', 'subtotal') or
                   (n[0] == 'b' and n[1] == 'colon') for n in nodes(c['tree']))


def oracles(results):
    for r in results:
        if r.impl.startswith('!'):
            continue
        o = r.impl.split('|O:', 1)
        if len(o) == 2 and o[1]:
            yield r.case, o[1]


def _has_unbounded(c):
    import re
    if c['k'] == 'h':
        texts = [v for v in c['cells'].values() if isinstance(v, str)]
    elif c['k'] == 'w':
        cells, _ = wb_cells(c)
        texts = [v for v in cells.values() if isinstance(v, str)]
    else:
        texts = list(leaves(c['tree']))
    for t in texts:
        if re.search(r"(?<![A-Za-z0-9$])\$?[A-Za-z]{1,2}:\$?[A-Za-z]{1,2}(?![A-Za-z0-9])", t) or \
                re.search(r'(?<![A-Za-z0-9$])\$?\d+:\$?\d+(?![A-Za-z0-9])', t) or 'name_col' in t:
            return True
    return False


def finding_key(c, impl_out, model_out):
    return None


def nontrivial(c):
    return c['k'] in ('w', 'h') or any(True for _ in leaves(c['tree']))


def bucket(c):
    if c['k'] == 'h' and c.get('deg'):
        return 'h:degenerate'
    if c['k'] == 'h':
        return 'h:failed-build' if c.get('multi') or any(
            isinstance(v, str) and v in BROKEN for v in c['cells'].values()) else 'h'
    if c['k'] == 'w':
        return 'w'
    t = c['tree']
    ns = list(nodes(t))
    if c.get('xs'):
        return 'f:sheetname'
    if any(n[0] == 'f' and n[1].lower() in ('offset', 'indirect', 'subtotal') or (n[0] == 'b' and n[1] == 'colon')
           for n in ns):
        return 'f:computed'
    if any(n[0] == 'b' and n[1] == 'space' for n in ns):
        return 'f:intersection'
    if any(n[0] == 'f' and n[1].lower() in ('row', 'column') for n in ns):
        return 'f:rowcol'
    if any(n[0] == 'b' and n[1] == 'comma' for n in ns):
        return 'f:union'
    ls = list(leaves(t))
    if any(x == 'name_multi' for x in ls):
        return 'f:multiarea'
    if any(x in POOLS['name'] for x in ls):
        return 'f:name'
    if _has_unbounded(c):
        return 'f:unbounded'
    if any(x.count(':') >= 2 for x in ls):
        return 'f:multicolon'
    if any('!' in x for x in ls):
        return 'f:sheet'
    if any('$' in x for x in ls):
        return 'f:abs'
    if any(':' in x for x in ls):
        return 'f:range'
    return 'f:plain'

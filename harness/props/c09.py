"""C09 — a failed evaluation does not corrupt the model.  DESIGN.md §7 C09.

A case is one workbook (nodes in the C01 format, topological in plain mode), one failure attribute per node and one
whole history:

    {'mode': 'plain' | 'iter',
     'nodes': [['I', addr, valtok] | ['F', addr, kind, args] | ['R', range_addr, rows, cols, [members]]],
              kind 'cse' = CSE array formula {=<range node>} over the target `addr` (its member cells are 'idx' nodes)
     'attrs': [[fail, pre, post]]      fail = ok | unk | raise | at<k> ; pre/post = captured #VALUE! operands
     'ops':   [['E', node] | ['S', node, valtok]]}

`impl` drives the REAL ExcelCompiler (in-memory workbook, `plugins=harness.c09_plugin`, `cycles=True` for 'iter') and
returns one token per operation (value, `!exc:pycel:<class>` or `!exc:bare:<class>`); `model_lines` sends the same
workbook and history to the Lean driver (failure-aware engine, repaired disciplines).  `oracles` restates the
property on the implementation alone against FRESH compilers of the current (repaired) workbook.
"""
import json

from harness import core, pyc
from harness.props import c01

ID = 'C09'
LEAN_MODULE = 'Pycel.Props.C09'
NS = 'Pycel.Failure.'
THEOREMS = [NS + t for t in (
    'C09_inv', 'C09_inv_history', 'C09_init', 'C09_never_stale', 'C09_retry', 'C09_dependant_fails',
    'C09_retry_after_failure', 'C09_unrelated', 'C09_cone_has_value', 'C09_unrelated_cone', 'C09_repair',
    'C09_repair_fresh', 'C09_repaired_balanced', 'C09_asWritten_not_balanced', 'C09_assert_counterexample',
    'C09_demo_repaired', 'semOf_local', 'eqvR_sound', 'C09_iter_restored', 'C09_iter_retry_partial', 'C09_iter_dependant_fails', 'C09_iter_dependant_retry',
    'C09_iter_wip_counterexample', 'C09_iter_demo_repaired')]
DESIGN_REF = 'DESIGN.md §7 C09'
RULE = ('deterministic core: fixed workbooks (chain leaf/mid, range, CSE array, captured-message, cycle) x every formula '
        'cell in turn made to fail x failure mode {unknown function (12 spellings), plugin raising on every call one of 13 '
        'Python exception classes (NameError, UnboundLocalError, RecursionError, KeyError, IndexError, ValueError, '
        'TypeError, ZeroDivisionError, AssertionError, AttributeError, NotImplementedError, RuntimeError, a custom '
        'Exception subclass), plugin raising on its 1st / 2nd call} x the history [evaluate dependant, retry, failing '
        'cell, every other cell, repair with set_value (5, 0, "", "a", 7 in rotation), everything twice], plain and '
        'iterative; hostile text literals ({ } {0} {name} %s % backslash, quotes, line breaks; 21 of them, rotating) in '
        'the formula text of the failing cell, of its dependants and of cells with captured #VALUE! operands; random: '
        'DAG workbooks of 3-10 cells (ranges, CSE block, captured operands, hostile literals on 40% of the formulas) '
        'with 1-2 failing cells of random kind and random follow-up histories (evaluate / set_value on inputs / repair '
        '/ overwrite of a healthy formula), plain and iterative (iterative: no ranges, cycles through the failing '
        'cell). Every evaluate (failing cell, dependant, retry, unrelated) is classified by the TYPE of the exception '
        'raised. Exception OBJECT shapes rotate over every fault class: message, no args, several args, None, int, tuple, '
        'bytes, an argument whose __str__ raises, a message of format metacharacters. Retry depth: the dependant and '
        'the failing cell are each retried 3 times before the repair and evaluated twice after it. Reference forms: '
        'bounded ranges, whole-column spelling A:A of a complete column (model-compared, plain), and - oracle-only, '
        'plain AND iterative - SUM(B:B), SUM(r:r), INDEX(r:r,1,2), INDEX(B:B,r,1), range intersection, defined names '
        'of a range and of the failing cell, nested, with the cause of the failure an input (FAILNEG(A_r)) that is '
        'fixed, broken again and fixed again. Entry points (oracle-only, plain and iterative): the FIRST operation that '
        'meets the failing cell is evaluate(cell) / evaluate(range) / evaluate(list) / trim_graph / validate_calcs, the '
        'failing cell reached directly, through a bounded range and through B:B; value_tree_str, to_file and '
        'recalculate follow inside the retry history. Long histories: 130 (thorough 400) consecutive failing '
        'evaluations of a dependant two levels up and 300 (700) of the failing cell on one model, chain / range / '
        'whole-column, plain and iterative, then unrelated cells, repair, everything twice. A case is non-trivial when '
        'an evaluate raises and a later evaluate follows.')
ASSUMPTIONS = [
    'failures are injected through an unknown function (=expr+FOO()) or the plugin FAILAT(id,k,expr) which raises on '
    'its k-th call (k=0: always); library functions raising on particular arguments are the same path (except Exception)',
    'formula language of the correspondence as in C01 (=ref, &, +, SUM, COUNT, INDEX, CSE {=range}); evaluate targets '
    'are cells (not range addresses)',
    'iterative mode: workbooks whose values are reached in the first pass (acyclic, or cycles through the failing cell); '
    'the model runs one pass per evaluate; no ranges / CSE / k-th-call faults there',
    'set_value only on cells that are in the cell map',
    'trim_graph / validate_calcs / value_tree_str / to_file / recalculate must finish or raise one of pycel\'s own '
    'errors; after a trim_graph that succeeded the case is not checked further (the trimmed model is C08\'s subject)',
    'raw cases (whole-row / intersection / defined-name references, ranges in iterative mode) are not run through the '
    'model (computed references and iterative ranges are outside it): they are decided by the fresh-compiler oracle only',
    'RecursionError is raised by the plugin as an exception class, the interpreter limit itself is not provoked; the '
    'RecursionError("Do you need to use cycles=True ?") that eval_func re-raises on purpose is read as one of '
    'pycel\'s own errors (token reraised:RecursionError), any other non-pycel exception type is bare; BaseException '
    'kinds that are not Exceptions (KeyboardInterrupt, SystemExit, GeneratorExit) are not errors of a function and '
    'are outside the property: not generated',
    'a k-th-call fault is only combined with a second failing cell in the fixed workbooks: which of two failing '
    'cells a graph construction reaches first (work-list order) is not modelled and would shift the call counts',
    'when one evaluate call first builds two or more ranges (plain or CSE), the order in which graph construction '
    'evaluates them is not modelled: the exception class of that call is compared up to "a pycel error"',
]
TRUSTED = ['modelled, not verified: openpyxl ArrayFormula storage, networkx, Python exception semantics (try/except/'
           'finally, with-block), the concrete formula evaluator of pycel (compared on the generated language)']
REQUIRED_BUCKETS = ['plain:leaf', 'plain:mid', 'plain:range', 'plain:colref', 'plain:cse', 'plain:captured',
                    'plain:raw', 'plain:entry', 'plain:long', 'iter:chain', 'iter:cycle', 'iter:raw', 'iter:entry',
                    'iter:long']
EXHAUSTIVE = False
EXPLANATION = ('theorems: failure-aware engine, all workbooks / failure positions / histories; correspondence: real '
               'ExcelCompiler vs compiled model per operation; oracle: running compiler vs fresh compilers of the '
               'repaired workbook')
PLUGIN = 'harness.c09_plugin'

_REF = {}


# ---------------------------------------------------------------------------------------------------------------
# workbook description -> Excel cells

def _alias(n):
    return n[5] if n[0] == 'R' and len(n) > 5 and n[5] else None


def _body(nodes, i):
    """formula body of node i; a range node with a whole-column / whole-row spelling (`A:A`, `2:2`) is written so"""
    n = nodes[i]
    if n[2] == 'cse':
        r = nodes[n[3][0]]
        return _alias(r) or r[1].partition('!')[2]
    body = c01.formula_of(nodes, i)[1:]
    for j in (n[3][:1] if n[2] == 'idx' else n[3]):
        if _alias(nodes[j]):
            body = body.replace(nodes[j][1].partition('!')[2], _alias(nodes[j]))
    return body


KINDS = ['NameError', 'UnboundLocalError', 'RecursionError', 'KeyError', 'IndexError', 'ValueError', 'TypeError',
         'ZeroDivisionError', 'AssertionError', 'AttributeError', 'NotImplementedError', 'RuntimeError', 'PluginError']
# text literals placed in the formula text (and so in the generated python code that the error messages quote)
LITS = ['{', '}', '{0}', '{name}: {0}', '%s', '%(x)s %d', '%', '\\', 'a\nb', 'say "hi"', "it's", '{{}}', '${x}', '\\n',
        '{0!r:>{1}}', '{1}{2}', 'a\r\nb', '\\"', '{:}', '{', '}}']
# unknown function names (legal spellings; pycel lowercases, strips _xlfn., maps . to _)
SHAPES = ['msg', 'noargs', 'multi', 'none', 'int', 'tuple', 'bytes', 'badstr', 'fmt']
NAMES = ['FOO', 'Foo', '_XLFN.FOO', 'FOO.BAR', 'F00_X', '_FOO', 'FOO_', 'ÄBC', 'XLOOKUP', '_xlfn.XLOOKUP', 'FOO1',
         'R1C1X']


def raw_of(fail):
    """driver token of a failure mode: the Python class as eval_func's except clauses see it"""
    if ':' not in fail:
        return fail
    head, _, cls = fail.partition(':')
    raw = 'name' if cls in ('NameError', 'UnboundLocalError') else 'rec' if cls == 'RecursionError' else 'other'
    return f'{head}:{raw}'


def _lit(attrs, i):
    a = attrs[i]
    return LITS[a[3] % len(LITS)] if len(a) > 3 and a[3] is not None else None


def _q(text):
    return '"' + text.replace('"', '""') + '"'


def formula_text(nodes, attrs, i, transient=True):
    """Excel text of formula node i with its failure mode (transient=False: k-th-call faults removed)"""
    a = attrs[i]
    fail, pre, post = a[0], a[1], a[2]
    lit = _lit(attrs, i)
    name = NAMES[a[4] % len(NAMES)] if len(a) > 4 and a[4] is not None else 'FOO'
    shape = SHAPES[a[5] % len(SHAPES)] if len(a) > 5 and a[5] is not None else 'msg'
    body = _body(nodes, i)
    wrapped = False
    if lit is not None and nodes[i][2] != 'cse':
        body = f'IF(LEN({_q(lit)})>=0,{body},0)'           # value-neutral: IF is eager and returns the second argument
        wrapped = True
    head, _, cls = fail.partition(':')
    if head == 'unk':
        body = f'{body}+{name}({_q(lit) if lit is not None else ""})'
    elif head == 'raise':
        body = f'FAILAT({i},0,"{cls}","{shape}",{body})'
    elif head.startswith('at') and transient:
        body = f'FAILAT({i},{int(head[2:])},"{cls}","{shape}",{body})'
    elif nodes[i][2] in ('cat', 'add') and (pre or post) and not wrapped:
        body = f'({body})'
    for q in range(pre):
        body = f'("{"ab"[q % 2]}"+1)+' + body
    for q in range(post):
        body = body + f'+("{"cd"[q % 2]}"+1)'
    return '=' + body


def cells_of(nodes, attrs, inputs, consts, transient=True):
    """inputs: {node: python value} current values of input nodes; consts: {node: value} overwritten formula cells"""
    from openpyxl.worksheet.formula import ArrayFormula
    cells = {}
    for i, n in enumerate(nodes):
        if n[0] == 'I':
            cells[n[1]] = inputs.get(i, c01._py(n[2]))
        elif n[0] == 'F':
            if i in consts:
                cells[n[1]] = consts[i]
            elif n[2] == 'cse':
                sheet, _, coord = n[1].partition('!')
                first = coord.split(':')[0]
                cells[f'{sheet}!{first}'] = ArrayFormula(coord, formula_text(nodes, attrs, i, transient))
            elif n[2] == 'idx' and nodes[n[3][0]][0] == 'F':
                pass            # member cell of a CSE block: created by the array formula
            else:
                cells[n[1]] = formula_text(nodes, attrs, i, transient)
    return cells


def compiler(case, inputs=None, consts=None, transient=True):
    from harness import c09_plugin
    c09_plugin.reset()
    cells = cells_of(case['nodes'], case['attrs'], inputs or {}, consts or {}, transient)
    return pyc.compiler_from(cells, cycles=True if case['mode'] == 'iter' else None, plugins=PLUGIN)


def canon(exc):
    """by the TYPE of the exception evaluate raised: pycel's own classes -> pycel:<class>; the RecursionError eval_func
    re-raises deliberately (recognised by its text) -> reraised:RecursionError; anything else -> bare:<class>"""
    if type(exc) is RecursionError and str(exc) == 'Do you need to use cycles=True ?':
        return '!exc:reraised:RecursionError'
    t = core.canon_exc(exc)
    return t.split('(')[0]


def _own(tok):
    return tok.startswith('!exc:pycel:') or tok.startswith('!exc:reraised:') or tok == '!exc:own:*'


def _eval(comp, addr):
    try:
        return core.enc(comp.evaluate(addr))
    except RecursionError as exc:
        return canon(exc)
    except Exception as exc:   # noqa
        return canon(exc)


def raw_compiler(case, sets):
    """workbook given cell by cell (sheet S), with the writes `sets` {addr: value} applied to its value cells"""
    import openpyxl
    from openpyxl.workbook.defined_name import DefinedName
    from pycel import ExcelCompiler
    from harness import c09_plugin
    c09_plugin.reset()
    wb = openpyxl.Workbook()
    ws = wb.active
    ws.title = 'S'
    for a, v in case['raw'].items():
        ws[a] = sets.get(a, v)
    for k, d in (case.get('names') or {}).items():
        wb.defined_names[k] = DefinedName(k, attr_text=d)
    return ExcelCompiler(excel=wb, plugins=PLUGIN, cycles=True if case['mode'] == 'iter' else None)


def _enc_any(v):
    if isinstance(v, (list, tuple)) and v and isinstance(v[0], (list, tuple)):
        return '[' + ' / '.join(','.join(core.enc(x) for x in row) for row in v) + ']'
    if isinstance(v, (list, tuple)):
        return '[' + ','.join(core.enc(x) for x in v) + ']'
    return core.enc(v)


def _entry(comp, op):
    """one public entry point other than evaluate(cell) / set_value; -> outcome token"""
    import os
    import tempfile
    try:
        if op[0] == 'ER':                                   # evaluate(range)
            return _enc_any(comp.evaluate('S!' + op[1]))
        if op[0] == 'EL':                                   # evaluate(list of addresses)
            return _enc_any(comp.evaluate(['S!' + a for a in op[1]]))
        if op[0] == 'T':                                    # trim_graph(inputs, outputs)
            comp.trim_graph(['S!' + a for a in op[1]], ['S!' + a for a in op[2]])
        elif op[0] == 'V':                                  # validate_calcs(outputs)
            import contextlib
            import io
            with contextlib.redirect_stdout(io.StringIO()):
                comp.validate_calcs(output_addrs=['S!' + a for a in op[1]])
        elif op[0] == 'VT':                                 # value_tree_str(cell in the cell map)
            list(comp.value_tree_str('S!' + op[1]))
        elif op[0] == 'TF':                                 # to_file
            d = tempfile.mkdtemp(prefix='c09-')
            try:
                comp.to_file(os.path.join(d, 'm'), file_types=('yml',))
            finally:
                import shutil
                shutil.rmtree(d, ignore_errors=True)
        elif op[0] == 'RC':                                 # recalculate()
            comp.recalculate()
        else:
            return '!bad-op'
        return 'done'
    except RecursionError as exc:
        return canon(exc)
    except Exception as exc:   # noqa
        return canon(exc)


def raw_impl(case):
    comp = raw_compiler(case, {})
    out, snaps, sets = [], [], {}
    for op in case['ops']:
        if op[0] == 'E':
            out.append(_eval(comp, 'S!' + op[1]))
            snaps.append((dict(sets), op[1]))
        elif op[0] in ('ER', 'EL'):
            out.append(_entry(comp, op))
            snaps.append((dict(sets), op))
        elif op[0] != 'S':
            out.append(_entry(comp, op))
            snaps.append(None)
        else:
            v = c01._py(op[2])
            try:
                comp.set_value('S!' + op[1], v)
                out.append('ok')
            except Exception as exc:   # noqa
                out.append(canon(exc))
            sets[op[1]] = v
            snaps.append(None)
    ref = []
    for sn in snaps:
        if sn is None:
            ref.append(None)
            continue
        key = (json.dumps([case['mode'], case['raw'], case.get('names')], sort_keys=True),
               json.dumps(sorted(sn[0].items())), json.dumps(sn[1]))
        if key not in _REF_MEMO:
            fresh = raw_compiler(case, sn[0])
            _REF_MEMO[key] = _eval(fresh, 'S!' + sn[1]) if isinstance(sn[1], str) else _entry(fresh, sn[1])
        ref.append(_REF_MEMO[key])
    _REF[json.dumps(case, sort_keys=True)] = ref
    return ';'.join(out)


def impl(case):
    if 'raw' in case:
        return raw_impl(case)
    nodes = case['nodes']
    comp = compiler(case)
    out = []
    inputs, consts = {}, {}
    ref = []
    cones = _cones(nodes)
    built = set()
    for op in case['ops']:
        if op[0] == 'E':
            o = _eval(comp, nodes[op[1]][1])
            new_ranges = [j for j in cones[op[1]] - built
                          if nodes[j][0] == 'R' or (nodes[j][0] == 'F' and nodes[j][2] == 'cse')]
            new_ranges += [j for j in new_ranges if _alias(nodes[j])]     # the reference cell + the range it bounds to
            built |= cones[op[1]]
            if len(new_ranges) >= 2 and _own(o):
                # several ranges are first evaluated inside this call (graph construction); the order in which
                # _process_gen_graph takes them (a LIFO work list) decides WHICH pycel error surfaces first and is not
                # modelled: the class is compared up to "a pycel error" here
                o = '!exc:own:*'
            out.append(o)
            ref.append((dict(inputs), dict(consts), op[1]))
        else:
            v = c01._py(op[2])
            try:
                comp.set_value(nodes[op[1]][1], v)
                out.append('ok')
            except Exception as exc:   # noqa
                out.append(canon(exc))
            (inputs if nodes[op[1]][0] == 'I' else consts)[op[1]] = v
            ref.append(None)
    # the fresh compilers share the plugin's call counters with the running one: build them after the history
    _REF[json.dumps(case, sort_keys=True)] = [None if r is None else reference(case, *r) for r in ref]
    return ';'.join(out)


_REF_MEMO = {}


def reference(case, inputs, consts, target):
    """evaluate `target` on a FRESH compiler of the current workbook (inputs written in, overwritten formula cells as
    constants, k-th-call faults removed, persistent failures kept)"""
    key = (json.dumps([case['mode'], case['nodes'], case['attrs']]), json.dumps(sorted(inputs.items())),
           json.dumps(sorted(consts.items())), target)
    if key not in _REF_MEMO:
        if len(_REF_MEMO) > 200000:
            _REF_MEMO.clear()
        _REF_MEMO[key] = _eval(compiler(case, inputs, consts, transient=False), case['nodes'][target][1])
    return _REF_MEMO[key]


def model_lines(case):
    if 'raw' in case:
        return ['c09 skip']              # oracle-only: reference forms the model does not carry
    toks = ['c09', case['mode'], str(len(case['nodes']))]
    for n, a in zip(case['nodes'], case['attrs']):
        toks += [raw_of(a[0]), str(a[1]), str(a[2]), '1' if (n[0] == 'F' and n[2] == 'cse') else '0']
        if n[0] == 'I':
            toks += ['I', n[2]]
        elif n[0] == 'F':
            kind, args = n[2], n[3]
            if kind == 'cse':
                toks += ['F', 'ref', str(args[0])]
            elif kind in ('cat', 'sum', 'cnt'):
                toks += ['F', kind, str(len(args))] + [str(j) for j in args]
            else:
                toks += ['F', kind] + [str(j) for j in args]
        else:
            toks += ['R', str(n[2]), str(n[3])] + [str(j) for j in n[4]]
    for op in case['ops']:
        toks += ['E', str(op[1])] if op[0] == 'E' else ['S', str(op[1]), op[2]]
    return [' '.join(toks)]


def same(impl_out, model_out):
    if model_out == '!oracle-only':
        return True
    a, b = (impl_out or '').split(';'), (model_out or '').split(';')
    return len(a) == len(b) and all(x == y or (x == '!exc:own:*' and _own(y))
                                    for x, y in zip(a, b))


def governed(case):
    return True


# ---------------------------------------------------------------------------------------------------------------
# structure helpers

def _deps(nodes):
    deps = []
    for n in nodes:
        if n[0] == 'I':
            deps.append(set())
        elif n[0] == 'F':
            deps.append(set(n[3][:1]) if n[2] in ('idx', 'cse') else set(n[3]))
        else:
            deps.append(set(n[4]))
    return deps


def _cones(nodes, cut=()):
    """transitive precedents (reflexive) of every node, cycles allowed; nodes in `cut` have no precedents"""
    deps = _deps(nodes)
    out = []
    for i in range(len(nodes)):
        seen, todo = {i}, [i]
        while todo:
            k = todo.pop()
            if k in cut:
                continue
            for j in deps[k]:
                if j not in seen:
                    seen.add(j)
                    todo.append(j)
        out.append(seen)
    return out


def _special(nodes, i):
    """CSE array formula node or one of its member cells (no failure attribute / overwrite can be realised there:
    the members are created by the array formula)"""
    n = nodes[i]
    return n[0] == 'F' and (n[2] == 'cse' or (n[2] == 'idx' and nodes[n[3][0]][0] == 'F'))


def _transient(attrs):
    return {i for i, a in enumerate(attrs) if a[0].startswith('at')}


# ---------------------------------------------------------------------------------------------------------------
# oracle (implementation only)

def _violations(case, impl_out):
    """yield (op index, text) for every operation that breaks the property on the implementation's own outputs"""
    ref = _REF.get(json.dumps(case, sort_keys=True))
    if ref is None:
        return
    outs = (impl_out or '').split(';')
    if len(outs) != len(ref):
        yield 0, f'history aborted: {impl_out[:120]}'
        return
    raw = 'raw' in case
    nodes, attrs = case.get('nodes'), case.get('attrs')
    trans = set() if raw else _transient(attrs)
    consts = set()
    for k, (o, f) in enumerate(zip(outs, ref)):
        op = case['ops'][k]
        if op[0] == 'S':
            if not raw and nodes[op[1]][0] == 'F':
                consts.add(op[1])
            if o != 'ok':
                yield k, f'op #{k} set_value({op[1] if raw else nodes[op[1]][1]}) raised {o}'
            continue
        if raw and op[0] not in ('E', 'ER', 'EL'):
            # trim_graph / validate_calcs / value_tree_str / to_file / recalculate: they either finish or raise one
            # of pycel's own errors; never a bare internal exception
            if not (o == 'done' or _own(o)):
                yield k, f'op #{k} {op[0]}({op[1:]}) escaped as {o}'
            if op[0] == 'T' and o == 'done':
                return                      # the model was trimmed: what follows is C08's subject
            continue
        addr = str(op[1]) if raw else nodes[op[1]][1]
        if o.startswith('!exc:bare'):
            yield k, f'op #{k} evaluate({addr}) escaped as a bare internal exception {o}'
        elif _own(o):
            cone = set() if raw else _cones(nodes, consts)[op[1]]
            if not f.startswith('!exc') and not (cone & trans):
                yield k, (f'op #{k} evaluate({addr}) raised {o} but a fresh compiler of the current workbook '
                          f'evaluates it to {core.show(f)}')
        elif o.startswith('!'):
            yield k, f'op #{k} evaluate({addr}) returned a non-Excel value {o}'
        elif f.startswith('!exc'):
            yield k, (f'op #{k} evaluate({addr}) returned {core.show(o)} (stale / previous value) but a fresh '
                      f'compiler of the current workbook raises {f}')
        elif o != f:
            yield k, (f'op #{k} evaluate({addr}) = {core.show(o)} but a fresh compiler of the current workbook gives '
                      f'{core.show(f)}')


def oracles(results):
    for r in results:
        for _, text in _violations(r.case, r.impl):
            yield r.case, text
            break


# ---------------------------------------------------------------------------------------------------------------
# known finding: set_value over a formula cell keeps the formula

def finding_key(case, impl_out, model_out):
    """repair.formula-kept: the first wrong operation is an evaluate that follows a set_value over a FORMULA cell f and
    reads f (transitively), and — in plain mode — a set_value on a (transitive) precedent of f lies between the two
    (the kept formula is evaluated again once f is reset; in iterative mode it is evaluated on every read)."""
    if 'raw' in case:
        return None
    nodes = case['nodes']
    ks = [k for k, _ in _violations(case, impl_out)]
    if model_out is not None:
        a, b = (impl_out or '').split(';'), model_out.split(';')
        ks += [k for k, (x, y) in enumerate(zip(a, b)) if not same(x, y)]
    if not ks:
        return None
    k = min(ks)
    op = case['ops'][k]
    if op[0] != 'E':
        return None
    cones = _cones(nodes)
    over = {}
    for q, o in enumerate(case['ops'][:k]):
        if o[0] == 'S' and nodes[o[1]][0] == 'F':
            over.setdefault(o[1], q)
    for f, q in over.items():
        if f not in cones[op[1]]:
            continue
        if case['mode'] == 'iter':
            return 'repair.formula-kept'
        for o in case['ops'][q + 1:k]:
            if o[0] == 'S' and o[1] != f and o[1] in cones[f]:
                return 'repair.formula-kept'
    return None


# ---------------------------------------------------------------------------------------------------------------
# coverage

def nontrivial(case):
    ref = _REF.get(json.dumps(case, sort_keys=True))
    if not ref:
        return False
    fails = [k for k, f in enumerate(ref) if f and f.startswith('!exc')]
    evs = [k for k, op in enumerate(case['ops']) if op[0] == 'E']
    return bool(fails) and any(k > fails[0] for k in evs)


def bucket(case):
    return f"{case['mode']}:{case.get('pos', 'random').split('/')[0]}"


# ---------------------------------------------------------------------------------------------------------------
# generators

def _tok(v):
    return core.enc_text(v) if isinstance(v, str) else core.enc(v)


A = 'Sheet1!'
FIXED = {
    # A1 = 1, A2 = 2, B1 = A1+A2 (leaf formula), B2 = B1+A1 (mid), B3 = B2&"|" (top), C1 = A1+A1 (unrelated)
    'chain': [['I', A + 'A1', 'n:1/1'], ['I', A + 'A2', 'n:2/1'], ['F', A + 'B1', 'add', [0, 1]],
              ['F', A + 'B2', 'add', [2, 0]], ['F', A + 'B3', 'cat', [3]], ['F', A + 'C1', 'add', [0, 0]]],
    # A1 = 1, A2 = A1+A1 (formula inside the range), A3 = 3, range A1:A3, B1 = SUM(A1:A3), B2 = B1+A1, C1 = A3+A3
    'range': [['I', A + 'A1', 'n:1/1'], ['F', A + 'A2', 'add', [0, 0]], ['I', A + 'A3', 'n:3/1'],
              ['R', A + 'A1:A3', 3, 1, [0, 1, 2]], ['F', A + 'B1', 'sum', [3]], ['F', A + 'B2', 'add', [4, 0]],
              ['F', A + 'C1', 'add', [2, 2]]],
    # A1 = 1, A2 = 2, range A1:A2, {H1:H2 = A1:A2}, H1, H2 members, B1 = H2+A1, C1 = A1+A1
    # the range workbook read through the whole-column reference A:A
    'colref': [['I', A + 'A1', 'n:1/1'], ['F', A + 'A2', 'add', [0, 0]], ['I', A + 'A3', 'n:3/1'],
               ['R', A + 'A1:A3', 3, 1, [0, 1, 2], 'A:A'], ['F', A + 'B1', 'sum', [3]], ['F', A + 'B2', 'add', [4, 0]],
               ['F', A + 'C1', 'add', [2, 2]], ['F', A + 'C2', 'idx', [3, 2, 1]]],
    'cse': [['I', A + 'A1', 'n:1/1'], ['I', A + 'A2', 'n:2/1'], ['R', A + 'A1:A2', 2, 1, [0, 1]],
            ['F', A + 'H1:H2', 'cse', [2]], ['F', A + 'H1', 'idx', [3, 1, 1]], ['F', A + 'H2', 'idx', [3, 2, 1]],
            ['F', A + 'B1', 'add', [5, 0]], ['F', A + 'C1', 'add', [0, 0]]],
}


REPAIRS = ['n:5/1', 'n:0/1', 's:', 's:97', 'n:7/1']       # constants written over the failing cell (falsy ones too)


def _history(nodes, failing, repair='n:5/1'):
    """evaluate the top dependant and retry it 3 times, the failing cell 3 times, the dependant again, every other
    cell, repair, everything twice"""
    cones = _cones(nodes)
    cells = [i for i, n in enumerate(nodes) if n[0] != 'R' and not (n[0] == 'F' and n[2] == 'cse')]
    dependants = [i for i in cells if failing in cones[i] and i != failing]
    top = dependants[-1] if dependants else failing
    tgt = failing if failing in cells else top
    ops = [['E', top]] * 4 + [['E', tgt]] * 3 + [['E', top]] + [['E', i] for i in cells]
    if tgt in cells and nodes[tgt][0] == 'F' and not _special(nodes, tgt):
        ops += [['S', tgt, repair]]
    ops += [['E', i] for i in cells] + [['E', i] for i in reversed(cells)]
    return ops


def _blank(nodes):
    return [['ok', 0, 0, None, None, None] for _ in nodes]


def _dress(nodes, attrs, k):
    """deterministic hostile text: literal number k on the failing cells, k+1.. on the other formula cells (every
    second case), unknown-function spelling k"""
    q = k
    for i, n in enumerate(nodes):
        if n[0] != 'F' or _special(nodes, i):
            continue
        if attrs[i][0] != 'ok':
            attrs[i][3], attrs[i][4], attrs[i][5] = k, k, k
        elif k % 2 == 0 or attrs[i][1] or attrs[i][2]:
            q += 1
            attrs[i][3] = q
    return attrs


def fixed_cases():
    modes = (['unk'] + [f'raise:{c}' for c in KINDS] +
             ['at1:KeyError', 'at2:ValueError', 'at1:NameError', 'at1:RecursionError', 'at2:PluginError'])
    k = 0
    for name, nodes in FIXED.items():
        fcells = [i for i, n in enumerate(nodes) if n[0] == 'F' and not (_special(nodes, i) and n[2] != 'cse')]
        for f in fcells:
            for m in modes:
                attrs = _blank(nodes)
                attrs[f][0] = m
                k += 1
                pos = {'chain': 'leaf' if f == 2 else 'mid', 'range': 'range', 'colref': 'colref', 'cse': 'cse'}[name]
                yield {'mode': 'plain', 'nodes': nodes, 'attrs': _dress(nodes, attrs, k),
                       'ops': _history(nodes, f, REPAIRS[k % len(REPAIRS)]), 'pos': pos}
    # captured messages: an outer captured #VALUE! + an inner failure; two captures in one healthy formula, then a failure
    nodes = FIXED['chain']
    for pre, post in ((1, 0), (2, 0), (0, 1), (1, 1), (2, 1)):
        for f in (2, 3):
            for holder in (3, 4, 5):
                if holder < f:
                    continue
                for m in ('unk', 'raise:KeyError', 'raise:NameError', 'at1:TypeError'):
                    attrs = _blank(nodes)
                    attrs[f][0] = m
                    attrs[holder][1], attrs[holder][2] = pre, post
                    k += 1
                    ops = ([['E', 5]] if holder == 5 else []) + _history(nodes, f, REPAIRS[k % len(REPAIRS)])
                    yield {'mode': 'plain', 'nodes': nodes, 'attrs': _dress(nodes, attrs, k), 'ops': ops,
                           'pos': 'captured'}
    # iterative: the chain, and cycles through the failing cell
    for f in (2, 3, 4):
        for m in ['unk'] + [f'raise:{c}' for c in KINDS]:
            attrs = _blank(nodes)
            attrs[f][0] = m
            k += 1
            ops = _history(nodes, f, REPAIRS[k % len(REPAIRS)])
            yield {'mode': 'iter', 'nodes': nodes, 'attrs': _dress(nodes, attrs, k), 'ops': ops, 'pos': 'chain'}
            cut = [o for o in ops if o[0] == 'E']           # without the repair: retry and unrelated cells only
            yield {'mode': 'iter', 'nodes': nodes, 'attrs': attrs, 'ops': cut, 'pos': 'chain'}
    # A1 = 1, B1 = A1+B2, B2 = B1+A1 (cycle B1 <-> B2), B3 = B2+A1 (dependant), C1 = A1+A1 (unrelated)
    cyc = [['I', A + 'A1', 'n:1/1'], ['F', A + 'B1', 'add', [0, 2]], ['F', A + 'B2', 'add', [1, 0]],
           ['F', A + 'B3', 'add', [2, 0]], ['F', A + 'C1', 'add', [0, 0]]]
    for f in (1, 2):
        for m in ('unk', 'raise:KeyError', 'raise:RecursionError', 'raise:UnboundLocalError', 'raise:PluginError'):
            for pre in (0, 1):
                attrs = _blank(cyc)
                attrs[f][0] = m
                attrs[3][1] = pre
                k += 1
                _dress(cyc, attrs, k)
                for order in ([3, 3, f, 1, 2, 4, 3, 4], [f, 4, 3, 2, 1, 4], [4, 1, 1, 2, 3, 4]):
                    yield {'mode': 'iter', 'nodes': cyc, 'attrs': attrs, 'ops': [['E', i] for i in order],
                           'pos': 'cycle'}


def raw_cases(tier):
    """reference forms through which a dependant reaches the failing cell: whole column / whole row, bounded range,
    intersection, defined names (range and cell), INDEX over a whole row, nested; plain and iterative; three retries
    of the reader, of its dependant and of the failing cell, repair of the CAUSE (an input) or of the cell, two more
    rounds, break it again, retry, repair again."""
    causes = [('neg', lambda r: f'=FAILNEG(A{r})', -3), ('unk', lambda r: f'=A{r}+FOO("{{0}}")', 3),
              ('raise', lambda r: f'=FAILAT({r},0,"AssertionError","noargs",A{r})', 3),
              ('raise', lambda r: f'=FAILAT({r},0,"ValueError","badstr",A{r})', 3),
              ('raise', lambda r: f'=FAILAT({r},0,"RecursionError","multi",A{r})', 3)]
    forms = [('col', lambda r: '=SUM(B:B)'), ('bounded', lambda r: '=SUM(B1:B3)'), ('row', lambda r: f'=SUM({r}:{r})'),
             ('idxrow', lambda r: f'=INDEX({r}:{r},1,2)'), ('idxcol', lambda r: f'=INDEX(B:B,{r},1)'),
             ('isect', lambda r: f'=SUM(B1:B3 A{r}:C{r})'), ('name', lambda r: '=SUM(colb)'),
             ('namecell', lambda r: '=failing+1'), ('nested', lambda r: f'=SUM(B:B)+INDEX({r}:{r},1,1)+SUM(colb)')]
    for mode in ('plain', 'iter'):
        for r in (1, 2, 3):
            for ci, (ckind, cause, a_val) in enumerate(causes):
                for fname, form in forms:
                    if tier == 'quick' and ci >= 2 and (r + ci + len(fname)) % 3:
                        continue
                    raw = {'A1': 1, 'A2': 2, 'A3': 3, 'B1': '=A1*10', 'B2': '=A2*10', 'B3': '=A3*10',
                           'F5': form(r), 'H5': '=F5+1', 'G5': '=A1+A2'}
                    raw[f'A{r}'] = a_val
                    raw[f'B{r}'] = cause(r)
                    fail, cells = f'B{r}', ['F5', 'H5']
                    ops = [['E', 'F5']] * 4 + [['E', 'H5']] * 4 + [['E', fail]] * 3 + [['E', 'G5'], ['E', 'F5']]
                    if ckind == 'neg':
                        ops += [['S', f'A{r}', 'n:4/1']]
                    elif mode == 'plain':
                        ops += [['S', fail, 'n:0/1' if ci % 2 else 'n:4/1']]
                    ops += [['E', c] for c in cells + [fail, 'G5']] * 2
                    if ckind == 'neg':
                        ops += [['S', f'A{r}', 'n:-1/1']] + [['E', c] for c in cells + [fail]] * 3
                        ops += [['S', f'A{r}', 'n:0/1']] + [['E', c] for c in cells + [fail, 'G5']] * 2
                    yield {'mode': mode, 'raw': raw, 'names': {'colb': 'S!$B$1:$B$3', 'failing': f'S!$B${r}'},
                           'ops': ops, 'pos': f'raw/{fname}/{ckind}'}


def entry_cases(tier):
    """the FIRST operation that meets the failing cell is evaluate(cell) / evaluate(range) / evaluate(list) /
    trim_graph / validate_calcs; then retries, dependants, unrelated cell, value_tree_str, to_file, recalculate, the
    repair, two more rounds and validate_calcs again; the failing cell is reached directly, through a bounded range and
    through a whole-column reference; plain and iterative."""
    causes = [('neg', lambda r: f'=FAILNEG(A{r})', -3), ('unk', lambda r: f'=A{r}+FOOBAR(A{r})', 3),
              ('raise', lambda r: f'=FAILAT({r},0,"KeyError","noargs",A{r})', 3)]
    forms = [('direct', lambda r: f'=B{r}+B1'), ('bounded', lambda r: '=SUM(B1:B3)'), ('col', lambda r: '=SUM(B:B)')]
    firsts = [('cell', lambda: ['E', 'H5']), ('range', lambda: ['ER', 'B1:B3']), ('list', lambda: ['EL', ['G5', 'F5', 'H5']]),
              ('trim', lambda: ['T', ['A1'], ['H5']]), ('validate', lambda: ['V', ['H5', 'G5']])]
    k = 0
    for mode in ('plain', 'iter'):
        for r in (1, 2, 3):
            for ckind, cause, a_val in causes:
                for fname, form in forms:
                    for ename, first in firsts:
                        k += 1
                        if tier == 'quick' and k % 3 != (r % 3):
                            continue
                        raw = {'A1': 1, 'A2': 2, 'A3': 3, 'B1': '=A1*10', 'B2': '=A2*10', 'B3': '=A3*10',
                               'F5': form(r), 'H5': '=F5+1', 'G5': '=A1+A2'}
                        raw[f'A{r}'] = a_val
                        raw[f'B{r}'] = cause(r)
                        fail = f'B{r}'
                        ops = [first()] + [['E', 'F5']] * 3 + [['E', 'H5']] * 3 + [['E', fail]] * 3
                        ops += [['E', 'G5'], ['VT', 'H5'], ['TF'], ['RC'], ['E', 'F5'], ['ER', 'B1:B3'],
                                ['EL', ['G5', 'H5']], ['V', ['H5']], ['E', 'H5']]
                        if ckind == 'neg':
                            ops += [['S', f'A{r}', 'n:4/1']]
                        elif mode == 'plain':
                            ops += [['S', fail, 'n:4/1']]
                        ops += [['E', c] for c in ['F5', 'H5', fail, 'G5']] * 2 + [['ER', 'B1:B3'], ['V', ['H5', 'G5']]]
                        if ckind == 'neg':
                            ops += [['RC'], ['TF']]
                        ops += [['E', 'H5'], ['E', 'G5']]
                        yield {'mode': mode, 'raw': raw, 'names': {}, 'ops': ops, 'pos': f'entry/{ename}/{fname}/{ckind}'}


def long_cases(tier):
    """several hundred consecutive failing evaluations on one model (the failing cell, a dependant two levels up, a
    reader through a range), then the unrelated cells, the repair and everything twice: state that leaks a little per
    failed evaluation only shows at scale"""
    n_fail, n_top = (300, 130) if tier == 'quick' else (700, 400)
    chain, rng_wb = FIXED['chain'], FIXED['range']
    plan = [('plain', chain, 2, 4, 'unk'), ('plain', chain, 2, 4, 'raise:KeyError'), ('plain', rng_wb, 1, 5, 'unk'),
            ('iter', chain, 2, 4, 'raise:ValueError')]
    if tier != 'quick':
        plan += [('plain', rng_wb, 1, 5, 'raise:RecursionError'), ('iter', chain, 2, 4, 'unk'),
                 ('plain', FIXED['colref'], 1, 5, 'raise:AssertionError'), ('plain', FIXED['cse'], 3, 6, 'unk')]
    for mode, nodes, f, top, m in plan:
        attrs = _blank(nodes)
        attrs[f][0] = m
        cells = [i for i, n in enumerate(nodes) if n[0] != 'R' and not (n[0] == 'F' and n[2] == 'cse')]
        ops = [['E', top]] * n_top + ([['E', f]] * n_fail if f in cells else []) + [['E', top]] * 3
        ops += [['E', i] for i in cells]
        if f in cells and not _special(nodes, f):
            ops += [['S', f, 'n:5/1']]
        ops += [['E', i] for i in cells] * 2
        yield {'mode': mode, 'nodes': nodes, 'attrs': attrs, 'ops': ops, 'pos': 'long'}
    # through a whole-column reference, iterative and plain (oracle-only)
    for mode in ('iter', 'plain'):
        raw = {'A1': 1, 'A2': -3, 'A3': 3, 'B1': '=A1*10', 'B2': '=FAILNEG(A2)', 'B3': '=A3*10',
               'F5': '=SUM(B:B)', 'H5': '=F5+1', 'I5': '=H5+1', 'G5': '=A1+A3'}
        ops = [['E', 'I5']] * n_top + [['E', 'B2']] * n_fail + [['E', 'F5']] * 3 + [['E', 'G5'], ['S', 'A2', 'n:2/1']]
        ops += [['E', c] for c in ('I5', 'F5', 'B2', 'G5')] * 2
        yield {'mode': mode, 'raw': raw, 'names': {}, 'ops': ops, 'pos': 'long'}


VALUES = [0, 1, 2, 5, -3, 'a', None, True]


def gen_workbook(rng, mode):
    nrows = rng.randint(2, 4)
    ncell = rng.randint(3, 9)
    nodes, cellidx, ranges = [], [], {}
    for q in range(ncell):
        col, row = 'ABCDEFG'[q // nrows], q % nrows + 1
        addr = f'{A}{col}{row}'
        if q == 0 or rng.random() < 0.35:
            nodes.append(['I', addr, _tok(rng.choice(VALUES))])
            cellidx.append(len(nodes) - 1)
            continue
        kinds = ['ref', 'add', 'add', 'cat'] + ([] if mode == 'iter' else ['sum', 'sum', 'cnt', 'idx'])
        kind = rng.choice(kinds)
        if kind in ('sum', 'cnt', 'idx'):
            # a vertical run of existing cells
            c0 = rng.randrange(0, q // nrows + 1)
            avail = min(nrows, q - c0 * nrows)
            if avail < 2:
                kind = 'add'
            else:
                lo = rng.randint(1, avail - 1)
                hi = rng.randint(lo + 1, avail)
                key = (c0, lo, hi)
                if key not in ranges:
                    members = [cellidx[c0 * nrows + r - 1] for r in range(lo, hi + 1)]
                    nodes.append(['R', f'{A}{"ABCDEFG"[c0]}{lo}:{"ABCDEFG"[c0]}{hi}', hi - lo + 1, 1, members])
                    if mode == 'plain' and lo == 1 and hi == nrows and c0 < q // nrows and rng.random() < 0.6:
                        nodes[-1].append(f'{"ABCDEFG"[c0]}:{"ABCDEFG"[c0]}')    # a complete earlier column: A:A
                    ranges[key] = len(nodes) - 1
                r = ranges[key]
                if kind == 'idx':
                    nodes.append(['F', addr, 'idx', [r, rng.randint(1, hi - lo + 1), 1]])
                else:
                    extra = [rng.choice(cellidx)] if rng.random() < 0.3 else []
                    nodes.append(['F', addr, kind, [r] + extra])
                cellidx.append(len(nodes) - 1)
                continue
        if kind == 'ref':
            nodes.append(['F', addr, 'ref', [rng.choice(cellidx)]])
        elif kind == 'add':
            nodes.append(['F', addr, 'add', [rng.choice(cellidx), rng.choice(cellidx)]])
        else:
            nodes.append(['F', addr, 'cat', [rng.choice(cellidx) for _ in range(rng.randint(1, 3))]])
        cellidx.append(len(nodes) - 1)
    if mode == 'plain' and ranges and rng.random() < 0.4:
        # a CSE block {=range} in column H, its members, and a reader
        (c0, lo, hi), r = rng.choice(sorted(ranges.items()))
        k = hi - lo + 1
        nodes.append(['F', f'{A}H1:H{k}', 'cse', [r]])
        c = len(nodes) - 1
        for q in range(1, k + 1):
            nodes.append(['F', f'{A}H{q}', 'idx', [c, q, 1]])
            cellidx.append(len(nodes) - 1)
        nodes.append(['F', f'{A}I1', 'add', [len(nodes) - rng.randint(1, k), rng.choice(cellidx)]])
        cellidx.append(len(nodes) - 1)
    return nodes, cellidx


def gen_case(rng, mode):
    nodes, cellidx = gen_workbook(rng, mode)
    fcells = [i for i, n in enumerate(nodes) if n[0] == 'F' and not (_special(nodes, i) and n[2] != 'cse')]
    if not fcells:
        return None
    attrs = _blank(nodes)
    failing = rng.sample(fcells, 1 if rng.random() < 0.75 or len(fcells) < 2 else 2)
    for f in failing:
        r = rng.random()
        if r < 0.3:
            attrs[f][0] = 'unk'
            attrs[f][4] = rng.randrange(len(NAMES))
        elif r < 0.75 or mode == 'iter' or len(failing) > 1:
            attrs[f][0] = 'raise:' + rng.choice(KINDS)
            attrs[f][5] = rng.randrange(len(SHAPES))
        else:
            attrs[f][0] = f'at{rng.randint(1, 3)}:' + rng.choice(KINDS)
            attrs[f][5] = rng.randrange(len(SHAPES))
    for i, n in enumerate(nodes):
        if n[0] == 'F' and not _special(nodes, i) and rng.random() < 0.4:
            attrs[i][3] = rng.randrange(len(LITS))
    for i in fcells:
        if nodes[i][2] not in ('cse',) and rng.random() < 0.25:
            attrs[i][1] = rng.choice([1, 1, 2])
        if nodes[i][2] not in ('cse',) and rng.random() < 0.12:
            attrs[i][2] = 1
    if mode == 'iter' and rng.random() < 0.4:
        # close a cycle through the first failing cell: it additionally reads one of its dependants
        f = failing[0]
        cones = _cones(nodes)
        dependants = [i for i in cellidx if f in cones[i] and i != f]
        if dependants and nodes[f][2] in ('add', 'cat'):
            nodes[f] = [nodes[f][0], nodes[f][1], nodes[f][2], nodes[f][3][:1] + [rng.choice(dependants)]]
    cones = _cones(nodes)
    built = set()
    ops = []
    overwritten = set()
    for _ in range(rng.randint(4, 14)):
        r = rng.random()
        if r < 0.62 or not built:
            i = rng.choice(cellidx if rng.random() < 0.7 else failing + cellidx[-2:])
            if nodes[i][0] == 'F' and nodes[i][2] == 'cse':
                continue
            ops.append(['E', i])
            built |= cones[i]
        elif r < 0.80:
            cand = [i for i in built if nodes[i][0] == 'I']
            if cand:
                ops.append(['S', rng.choice(cand), _tok(rng.choice(VALUES))])
        elif r < 0.95:
            cand = [f for f in failing if f in built and not _special(nodes, f)]
            if cand:
                f = rng.choice(cand)
                ops.append(['S', f, _tok(rng.choice([5, 7, 'a', 0, '']))])
                overwritten.add(f)
        else:
            cand = [i for i in built if nodes[i][0] == 'F' and not _special(nodes, i)]
            if cand and mode == 'plain':
                f = rng.choice(cand)
                ops.append(['S', f, _tok(rng.choice([5, 7]))])
                overwritten.add(f)
    ops += [['E', i] for i in cellidx]
    return {'mode': mode, 'nodes': nodes, 'attrs': attrs, 'ops': ops}


def cases(tier, rng):
    yield from fixed_cases()
    yield from raw_cases(tier)
    yield from entry_cases(tier)
    yield from long_cases(tier)
    n = 250 if tier == 'quick' else 6000
    k = 0
    while k < n:
        c = gen_case(rng, 'plain' if rng.random() < 0.7 else 'iter')
        if c is not None:
            k += 1
            yield c

"""C11 — address algebra (excelutil.py:116-493, 533-562, 702-841).  DESIGN.md §7 C11."""
import itertools

from harness import core

ID = 'C11'
LEAN_MODULE = 'Pycel.Props.C11'
NS = 'Pycel.Addr.'
THEOREMS = [NS + t for t in (
    'limits_spec', 'C11_col_roundtrip', 'C11_col_letters_shape', 'C11_dec_roundtrip',
    'C11_sheet_quote_roundtrip', 'C11_split_sheet_partial', 'C11_split_sheet_counterexample',
    'C11_print_parse_cell', 'C11_print_parse_range', 'C11_print_parse_partial', 'C11_print_parse_counterexample',
    'C11_r1c1_abs', 'C11_r1c1_rel', 'C11_notations_agree',
    'C11_cells_count', 'C11_cells_mem', 'C11_cells_nodup', 'C11_cols_same_cells', 'C11_cells_sheet', 'C11_cells_resheet', 'C11_resheet',
    'C11_inter_spec', 'C11_inter_null_iff', 'C11_inter_cells', 'C11_union_bounding', 'C11_union_least',
    'C11_inter_comm', 'C11_union_comm', 'C11_inter_idem', 'C11_union_idem', 'C11_inter_assoc', 'C11_union_assoc',
    'C11_sheet_rule', 'C11_comm_sheets', 'C11_assoc_sheets', 'C11_union_assoc_all_sheets',
    'C11_inter_assoc_clash_witness', 'C11_covers_bounded', 'C11_inter_spec_unbounded', 'C11_inter_cells_unbounded', 'C11_bounded_not_unbounded', 'C11_unbounded_side',
    'C11_operand_assoc', 'C11_operand_assoc_sheets', 'C11_r1c1_abs_range', 'C11_offset_range', 'C11_offset_period', 'C11_offset_add', 'C11_offset_zero',
    'C11_offset_wrap_boundary')]
DESIGN_REF = 'DESIGN.md §7 C11'
RULE = ('ops on AddressRange/AddressCell public API: parse (A1, $, R1C1 absolute/relative with every anchor on the '
        'grid, sheet prefixes), tuple construction + the five printed forms re-parsed, the four notations of one '
        'location, & and ** on all ordered pairs of the 100 rectangles of a 4x4 grid plus boundary/sampled large '
        'ones, associativity over all triples (3x3 grid quick, 4x4 thorough, incl. #NULL! intermediates), '
        'address_at_offset incl. wrap, rows/cols/resolve_range/size/in, quote_sheet/unquote/split. A separate '
        'malformed stream: all strings up to length 3 (4 thorough) over a 12-character address alphabet, random '
        'longer ones and one-character mutations of well-formed texts. A case is non-trivial when it is not from '
        'the malformed stream; distinct = distinct case dict.')
ASSUMPTIONS = [
    'address text holds no newline and no non-ASCII decimal digit (Python regex `$` / `\\d` quirks are not modelled)',
    'structured references and defined names are observed only as "no such table / name" (a workbook-less cell)',
    'AddressMultiAreaRange is not modelled; derived address objects (AddressRange(obj, sheet=…), operator results, '
    'offsets) are values of the model, whatever was called on the source object before (op hist)',
    'relative R1C1 range forms (R[1]C[1]:R[2]C[2], R[1]:R[2]) are checked by correspondence only; absolute R1C1 ranges '
    'are proved (C11_r1c1_abs_range); operator-level associativity is proved for every sheet qualification '
    '(C11_operand_assoc_sheets)',
]
TRUSTED = ['modelled, not verified: Python re (ABSOLUTE_RE, R1C1_RANGE_RE, TABLE_REF_RE), str.split/replace, '
           'openpyxl get_column_letter / column_index_from_string / quote_sheetname']
REQUIRED_BUCKETS = ['hist', 'comb:sheets', 'comb:unbounded', 'parse:a1', 'parse:r1c1', 'parse:sheet', 'parse:malformed', 'tuple', 'tuple:bang', 'nota',
                    'comb:i', 'comb:u', 'comb3', 'assoc', 'offset', 'enum', 'contains', 'sheet']
EXHAUSTIVE = False

MALFORMED_ALPHABET = ['A', 'R', 'C', '1', '0', '$', ':', '[', ']', '-', '!', "'"]
EXTRA_CHARS = ['Z', 'a', 'z', 'r', 'c', '9', ' ', '#', '.', ',', 'é', '中', '/', '?', '_', 'X']
BCOLS = [1, 2, 25, 26, 27, 28, 52, 53, 701, 702, 703, 704, 16383, 16384]
BROWS = [1, 2, 9, 10, 11, 99, 100, 1048575, 1048576]
SHEETS = ['', 'Sheet1', 'My Sheet', "Bob's", "Bob's sheet", "a''b c", 'A1', 'R1C1', 'XFD1048576', '123', '1 2',
          'é t', "it's a 'q' name", 'x' * 31, '$A$1', 'R[1]C[1]', 'a.b', "o''", '#REF', ' ', "a ' b"]
BANG_SHEETS = ['a!b', 'a! b', '!', "it's! here", '#REF!']
SHEET_ALPHABET = "ABZaz019 '_.-#$é"


def _xl():
    from pycel import excelutil
    return excelutil


class _FakeExcel:
    defined_names = {}

    def table(self, name):
        return None, None


class _FakeCell:
    def __init__(self, col, row):
        self.col_idx, self.row, self.excel = col, row, _FakeExcel()


def legal_sheet(s):
    """Excel's rule for a sheet name ('' = no sheet)"""
    return (len(s) <= 31 and not any(ch in s for ch in ':\\/?*[]') and not s.startswith("'")
            and not s.endswith("'"))


def col_letter(n):
    s = ''
    while n:
        n, r = divmod(n - 1, 26)
        s = chr(65 + r) + s
    return s


def a1(c1, r1, c2=None, r2=None, dollar=False):
    d = '$' if dollar else ''
    s = f'{d}{col_letter(c1)}{d}{r1}'
    if c2 is not None and (c1, r1) != (c2, r2):
        s += f':{d}{col_letter(c2)}{d}{r2}'
    return s


# ---------------------------------------------------------------------------------------------------------------
# formatting shared by impl

T = core.enc_text


def fmt_addr(a):
    xl = _xl()
    if isinstance(a, str):
        return 'E ' + T(a)
    if not xl.is_address(a):
        return f'!type:{type(a).__name__}'
    k = 'R' if a.is_range else 'C'
    h, w = a.size
    return (f'A {k} {T(a.sheet or "")} {a.start.col_idx} {a.start.row} {a.end.col_idx} {a.end.row} {h} {w} '
            f'{T(a.address)}')


def short(a):
    if isinstance(a, str):
        return 'E' + T(a)
    return T(a.address)


def guard(f):
    try:
        return f()
    except Exception as exc:   # noqa
        return core.canon_exc(exc)


def fmt_grid(g):
    return ';'.join(','.join(f'{c.col_idx}.{c.row}' for c in row) for row in g)


def grid_rects(n):
    out = []
    for c1 in range(1, n + 1):
        for c2 in range(c1, n + 1):
            for r1 in range(1, n + 1):
                for r2 in range(r1, n + 1):
                    out.append((c1, r1, c2, r2))
    return out


def rect_text(t):
    return a1(*t)


# ---------------------------------------------------------------------------------------------------------------

def cases(tier, rng):
    thorough = tier == 'thorough'
    xl = _xl()
    maxc, maxr = xl.MAX_COL, xl.MAX_ROW

    def rc():
        return rng.choice(BCOLS) if rng.random() < .5 else rng.randint(1, maxc)

    def rr():
        return rng.choice(BROWS) if rng.random() < .5 else rng.randint(1, maxr)

    def rsheet():
        while True:
            s = ''.join(rng.choice(SHEET_ALPHABET) for _ in range(rng.randint(1, 12)))
            if legal_sheet(s):
                return s

    # --- tuple construction, printing, re-parsing: boundaries x boundaries, every sheet name
    coords = [(c, r) for c in BCOLS for r in BROWS]
    for (c, r) in coords:
        yield {'op': 'tuple', 'mode': 'C', 't': [c, r, c, r], 'sheet': '', 'wf': 1}
    for s in SHEETS + BANG_SHEETS:
        for (c, r) in [(1, 1), (26, 10), (27, 9), (702, 99), (703, 100), (16384, 1048576)]:
            yield {'op': 'tuple', 'mode': 'C', 't': [c, r, c, r], 'sheet': s, 'wf': 1}
        for t in [(1, 1, 2, 2), (26, 9, 27, 10), (702, 1, 703, 1048576), (1, 1, 16384, 1048576)]:
            yield {'op': 'tuple', 'mode': 'R', 't': list(t), 'sheet': s, 'wf': 1}
    for _ in range(4000 if thorough else 600):
        c1, c2 = sorted((rc(), rc()))
        r1, r2 = sorted((rr(), rr()))
        s = rng.choice(SHEETS) if rng.random() < .5 else rsheet()
        if (c1, r1) == (c2, r2):
            yield {'op': 'tuple', 'mode': 'C', 't': [c1, r1, c2, r2], 'sheet': s, 'wf': 1}
        else:
            yield {'op': 'tuple', 'mode': 'R', 't': [c1, r1, c2, r2], 'sheet': s, 'wf': 1}
    # tuple quirks: None entries, inverted corners, kind mismatch, zero, beyond the limits
    odd = [[1, None, 1, None], [None, 1, None, 3], [1, None, 2, None], [2, 2, 1, 1], [3, 5, 1, 1], [1, 1, 1, 1],
           [1, 2, 3, 4], [0, 0, 0, 0], [1, 0, 1, 0], [0, 1, 0, 1], [18278, 1, 18278, 1], [18279, 1, 18279, 1],
           [1, 1, 18279, 2], [16385, 1048577, 16385, 1048577], [None, None, None, None], [1, None, 1, 5]]
    for t in odd:
        for mode in 'RC':
            for s in ('', 'S 1'):
                yield {'op': 'tuple', 'mode': mode, 't': t, 'sheet': s}

    # --- parsing well-formed text: A1, $, sheets, lower case, leading zeros
    for (c, r) in coords:
        yield {'op': 'parse', 'mode': 'C', 'text': a1(c, r), 'sheet': '', 'anchor': None, 'wf': 1}
        yield {'op': 'parse', 'mode': 'R', 'text': a1(c, r, dollar=True), 'sheet': '', 'anchor': None, 'wf': 1}
    for _ in range(3000 if thorough else 500):
        c1, c2 = sorted((rc(), rc()))
        r1, r2 = sorted((rr(), rr()))
        txt = a1(c1, r1, c2, r2, dollar=rng.random() < .3)
        if rng.random() < .2:
            txt = txt.lower()
        s = rng.choice(SHEETS)
        how = rng.randint(0, 3)
        if s and how == 0:
            yield {'op': 'parse', 'mode': 'R', 'text': f'{s}!{txt}', 'sheet': '', 'anchor': None, 'wf': 1}
        elif s and how == 1:
            q = "'" + s.replace("'", "''") + "'"
            yield {'op': 'parse', 'mode': 'R', 'text': f'{q}!{txt}', 'sheet': rng.choice(['', s]), 'anchor': None,
                   'wf': 1}
        elif s and how == 2:
            yield {'op': 'parse', 'mode': 'R', 'text': txt, 'sheet': s, 'anchor': None, 'wf': 1}
        else:
            yield {'op': 'parse', 'mode': 'C' if ':' not in txt else 'R', 'text': txt, 'sheet': '', 'anchor': None,
                   'wf': 1}
    # R1C1 text (absolute, relative, ranges, whole rows/columns) read from anchors
    for _ in range(2000 if thorough else 300):
        ac, ar = rc(), rr()
        dr, dc = rng.randint(-3 * maxr, 3 * maxr), rng.randint(-3 * maxc, 3 * maxc)
        form = rng.randint(0, 5)
        txt = [f'R[{dr}]C[{dc}]', f'R{rr()}C{rc()}', f'R[{dr}]C{rc()}', f'R{rr()}C[{dc}]', 'RC',
               f'R[{dr}]C[{dc}]:R[{dr + 2}]C[{dc + 1}]'][form]
        yield {'op': 'parse', 'mode': 'R', 'text': txt, 'sheet': rng.choice(['', 'S 1']), 'anchor': [ac, ar], 'wf': 1}
    for txt in ('R1C1', 'R1048576C16384', 'R[0]C[0]', 'R[-1]C[-1]', 'R[1]C[1]', 'RC[1]', 'R[1]C', 'R1C1:R2C2',
                'R[1]:R[2]', 'C[1]:C[2]', 'R1:R3', 'C1:C2'):
        for anchor in ([1, 1], [16384, 1048576], [3, 4]):
            yield {'op': 'parse', 'mode': 'R', 'text': txt, 'sheet': '', 'anchor': anchor, 'wf': 1}
    special = ['A:A', 'A:C', '1:1', '1:3', '$A:$C', '$1:$3', 'A1:A1', 'B2:A1', 'A0', 'A0:A0', 'A01', 'A1:B', 'A:1',
               'AAAA1', 'ZZZ1', 'XFE1', 'A1048577', 'R', 'C', 'RC', 'R1', 'C1', 'RC1', 'R1C', 'R1C1', 'R0C0',
               'R1C1:R2C2', 'R1:R3', 'C1:C2', 'R1C1:R2', 'R[1]', 'R[1]C[1]', 'R[-1]C[-1]', 'R[-0]C', 'RC[2]',
               'R[1]:R[2]', 'C[1]:C[2]', 'R[1]C[1]:R[2]C[2]', 'R1C99999', 'R1C18278', 'R1C18279', 'r1c1', 'R[1]C[x]',
               'Table1[col]', 'Table1[]', 'x[', '[x]', 'A1:B2:C3', 'A1:A1:A1', 'C3:A1:B2', 'A1:B2:', 'A1::B2',
               'A1:#REF!:B2', '#REF!', '#NULL!', '#GETTING_DATA', '#N/A', 'A1:R2C2:B3', 'A1:R[1]C[1]:B3',
               'A1:x[y]:B2', 'A1:B:C3', 'Sheet1!A1:B2:C3', "SheetA!A1:'SheetA'!A9", "'Sheet'' A'!A1:'Sheet'' A'!A9",
               'sh!B1:C2:sh2!B1:C2', 'a!b!A1', "'a'!'b'!A1", '!A1', 'Sheet1!', '!', "''!A1", "'!A1", "'a!A1",
               "a'!A1", "'a'b'!A1", "'a''!A1", "''''!A1", "'a b'!A1:'a b'!B2:'a b'!C3", '$$1', 'A$', '$', '$$', '',
               'A1:R1C1', 'R1C1:A1', 'name', 'A1 ', ' A1', 'A 1', 'R1C1:R1C1', 'R2C2:R1C1']
    for txt in special:
        for anchor in (None, [3, 4], [16384, 1048576]):
            for s in ('', 'Sheet1', 'sh'):
                yield {'op': 'parse', 'mode': 'R', 'text': txt, 'sheet': s, 'anchor': anchor}
        yield {'op': 'parse', 'mode': 'C', 'text': txt, 'sheet': '', 'anchor': [2, 2]}

    # --- the notations of one location: every cell and rectangle of the grid from every anchor (+ boundaries)
    n = 4 if thorough else 3
    for t in grid_rects(n):
        for ac in range(1, n + 1):
            for ar in range(1, n + 1):
                yield {'op': 'nota', 't': list(t), 'anchor': [ac, ar], 'wf': 1}
    for (c, r) in coords:
        ac, ar = rc(), rr()
        yield {'op': 'nota', 't': [c, r, c, r], 'anchor': [ac, ar], 'wf': 1}
        yield {'op': 'nota', 't': [ac, ar, ac, ar], 'anchor': [c, r], 'wf': 1}
    for _ in range(2000 if thorough else 300):
        c1, c2 = sorted((rc(), rc()))
        r1, r2 = sorted((rr(), rr()))
        yield {'op': 'nota', 't': [c1, r1, c2, r2], 'anchor': [rc(), rr()], 'wf': 1}

    # --- intersection / union: all ordered pairs of the 4x4 grid, then boundary and sampled rectangles
    g4 = grid_rects(4)
    for a in g4:
        for b in g4:
            yield {'op': 'comb', 'k': 'i', 'a': rect_text(a), 'b': rect_text(b), 'wf': 1}
            yield {'op': 'comb', 'k': 'u', 'a': rect_text(a), 'b': rect_text(b), 'wf': 1}

    def rrect():
        c1, c2 = sorted((rc(), rc()))
        r1, r2 = sorted((rr(), rr()))
        return (c1, r1, c2, r2)
    big = [(1, 1, maxc, maxr), (maxc, maxr, maxc, maxr), (1, 1, 1, 1), (maxc, 1, maxc, maxr), (1, maxr, maxc, maxr),
           (26, 9, 27, 10), (702, 99, 703, 100)]
    pool = big + [rrect() for _ in range(60 if thorough else 25)]
    for a in pool:
        for b in pool:
            for k in 'iu':
                yield {'op': 'comb', 'k': k, 'a': rect_text(a), 'b': rect_text(b), 'wf': 1}
    # whole rows / columns (an unbounded side spans 1..MAX) against each other and against rectangles touching the
    # last column / row
    ub = ['1:1', '1:3', '2:5', 'A:A', 'A:C', 'B:XFD', 'XFD:XFD', 'XFC:XFD', '1048576:1048576', '3:1048576',
          '1048575:1048576']
    edge = ['A1', 'B2:C3', 'XFD1', 'XFC1:XFD2', 'A1:XFD1', 'A1:XFD1048576', 'A1048576', 'A1048575:B1048576',
            'C1:C1048576', 'XFD1048576', 'A1:XFC1048575', 'D4']
    for a in ub:
        for b in ub + edge:
            for k in 'iu':
                yield {'op': 'comb', 'k': k, 'a': a, 'b': b, 'wf': 1, 'ub': 1}
                if b not in ub:
                    yield {'op': 'comb', 'k': k, 'a': b, 'b': a, 'wf': 1, 'ub': 1}
    for _ in range(400 if thorough else 80):
        a = rng.choice(ub) if rng.random() < .5 else (
            f'{col_letter(min(x := rc(), y := rc()))}:{col_letter(max(x, y))}' if rng.random() < .5
            else f'{min(x := rr(), y := rr())}:{max(x, y)}')
        b = rect_text(rrect()) if rng.random() < .6 else rng.choice(ub + edge)
        k = rng.choice('iu')
        yield {'op': 'comb', 'k': k, 'a': a, 'b': b, 'wf': 1, 'ub': 1}
        yield {'op': 'comb', 'k': k, 'a': b, 'b': a, 'wf': 1, 'ub': 1}
    for (a, b, c) in [('1:1', 'A1:XFD1', 'XFD:XFD'), ('A:A', '1:1', 'A1'), ('1:3', '2:5', 'B:C'), ('A:A', 'B:B', '1:1'),
                      ('XFD:XFD', '1048576:1048576', 'A1:XFD1048576'), ('A:B', 'B2', '2:2')]:
        for k in 'iu':
            for side in 'lr':
                yield {'op': 'comb3', 'k': k, 'side': side, 'a': a, 'b': b, 'c': c, 'wf': 1, 'ub': 1}
    # mixed sheet qualification: none + sheet, sheet + none, same sheet, different sheets (-> #VALUE!), for & and **
    g2 = grid_rects(2)
    shs = ['', 'S', 'T']

    def q(sh, t):
        return (sh + '!' if sh else '') + rect_text(t)
    for a in g2:
        for b in g2:
            for sa in shs:
                for sb in shs:
                    if sa or sb:
                        for k in 'iu':
                            yield {'op': 'comb', 'k': k, 'a': q(sa, a), 'b': q(sb, b), 'wf': 1, 'ms': 1}
    for (a, b) in [((1, 1, 4, 5), (2, 3, 2, 3)), ((2, 3, 2, 3), (1, 1, 4, 5)), ((1, 1, 4, 5), (4, 5, 4, 5)),
                   ((1, 1, 4, 5), (5, 5, 5, 5)), ((1, 1, 4, 5), (2, 2, 3, 3))]:
        for sa in shs + ['My Sheet']:
            for sb in shs:
                for k in 'iu':
                    qa = ("'My Sheet'!" + rect_text(a)) if sa == 'My Sheet' else q(sa, a)
                    yield {'op': 'comb', 'k': k, 'a': qa, 'b': q(sb, b), 'wf': 1, 'ms': 1}
                    yield {'op': 'comb', 'k': k, 'a': q(sb, b), 'b': qa, 'wf': 1, 'ms': 1}
    mcs = [q(sc, c) for c in g2 for sc in shs]
    for a in g2:
        for b in g2:
            for sa in shs:
                for sb in shs:
                    for k in 'iu':
                        yield {'op': 'assoc', 'k': k, 'a': q(sa, a), 'b': q(sb, b), 'cs': mcs, 'wf': 1, 'ms': 1}
    # sheets on the operands, unbounded and inverted operands, error-code operands
    ops = ['A1', 'B2:C3', 'S!A1', 'S!B2:C3', 'T!B2:C3', "'S 1'!B2:C4", 'A:A', 'A:C', '1:1', '1:3', '2:5', 'XFD2',
           'XFD:XFD', 'B2:A1', 'C5:A1', 'A1048576', '1048576:1048576', '#NULL!', '#VALUE!', '#REF!', 'A0', 'junk',
           'R1C18279', 'A1:ZZZ1']
    for a in ops:
        for b in ops:
            for k in 'iu':
                yield {'op': 'comb', 'k': k, 'a': a, 'b': b}
    # --- associativity: all triples (bundled per ordered pair), incl. #NULL! intermediates
    gt = g4 if thorough else grid_rects(3)
    cs = [rect_text(c) for c in gt]
    for a in gt:
        for b in gt:
            for k in 'iu':
                yield {'op': 'assoc', 'k': k, 'a': rect_text(a), 'b': rect_text(b), 'cs': cs, 'wf': 1}
    for _ in range(3000 if thorough else 400):
        a, b, c = (rng.choice(pool) for _ in range(3))
        k = rng.choice('iu')
        for side in 'lr':
            yield {'op': 'comb3', 'k': k, 'side': side, 'a': rect_text(a), 'b': rect_text(b), 'c': rect_text(c),
                   'wf': 1}
    for (a, b, c) in [('A1', 'B2', 'C3'), ('A1:B2', 'C3', 'A1'), ('A1', 'A1', 'B2'), ('S!A1', 'B2', 'S!C3'),
                      ('S!A1', 'T!A1', 'A1'), ('S!A1', 'T!B1', 'C1')]:
        for k in 'iu':
            for side in 'lr':
                yield {'op': 'comb3', 'k': k, 'side': side, 'a': a, 'b': b, 'c': c, 'wf': int('!' not in a + b + c)}

    # --- offsets with wrap-around
    incs = [0, 1, -1, 2, -2, 25, 26, maxc - 1, maxc, maxc + 1, -maxc, -maxc - 1, maxr - 1, maxr, maxr + 1, -maxr,
            3 * maxr + 7, -5 * maxc - 3]
    anchors = ['A1', 'B2', 'XFD1048576', 'XFD1', 'A1048576', 'Z9', 'S!AA10', "'S 1'!B2:C3"]
    for t in anchors:
        for ri in incs:
            for ci in (incs if thorough else incs[::3]):
                yield {'op': 'offset', 'text': t, 'ri': ri, 'ci': ci, 'rj': rng.randint(-2 * maxr, 2 * maxr),
                       'cj': rng.randint(-2 * maxc, 2 * maxc), 'wf': 1}
    for _ in range(3000 if thorough else 400):
        yield {'op': 'offset', 'text': a1(rc(), rr()), 'ri': rng.randint(-3 * maxr, 3 * maxr),
               'ci': rng.randint(-3 * maxc, 3 * maxc), 'rj': rng.randint(-3 * maxr, 3 * maxr),
               'cj': rng.randint(-3 * maxc, 3 * maxc), 'wf': 1}
    for t in ('A:A', '1:1', '#REF!', 'junk', 'A0'):
        yield {'op': 'offset', 'text': t, 'ri': 1, 'ci': 1, 'rj': 0, 'cj': 0}

    # --- enumeration, size, containment
    for t in g4:
        yield {'op': 'enum', 'text': rect_text(t), 'wf': 1}
        yield {'op': 'enum', 'text': 'S!' + rect_text(t), 'wf': 1}
    for _ in range(300 if thorough else 60):
        c1, r1 = rc(), rr()
        w, h = rng.randint(1, 12), rng.randint(1, 12)
        c2, r2 = min(maxc, c1 + w - 1), min(maxr, r1 + h - 1)
        yield {'op': 'enum', 'text': a1(c1, r1, c2, r2), 'wf': 1}
    # bounded ranges that span every column / row of the sheet are ranges like any other
    for t in ('A1:XFD1', 'A2:XFD3', 'XFC1:XFD2'):
        yield {'op': 'enum', 'text': t, 'wf': 1}
    for t in ('A1:A1048576', 'B1:C1048576', 'A1:XFD1048576', 'A1:XFD1', 'XFD1:XFD1048576'):
        yield {'op': 'enum', 'text': t, 'wf': 1, 'nolist': 1}
    for t in ('A:A', 'A:B', '1:1', '1:2', 'B2:A1', 'C5:A1', 'A0', '#REF!', 'junk', 'A1:B2:C3', 'R1C1:R2C2'):
        yield {'op': 'enum', 'text': t}
    for a in g4[::3]:
        for c in range(1, 6):
            for r in range(1, 6):
                yield {'op': 'contains', 'r': rect_text(a), 'c': a1(c, r), 'wf': 1}
    for (r_, c_) in [('A1', 'A1'), ('A1', 'B1'), ('S!A1', 'A1'), ('S!A1', 'S!A1'), ('A1', 'S!A1'), ('S!A1:B2', 'T!A1'),
                     ('A1:B2', 'A1:B2'), ('A:A', 'A5'), ('A:A', 'B5'), ('1:1', 'B1'), ('A1:B2', 'junk'),
                     ('#REF!', 'A1'), ('A1:B2', '#REF!'), ('B2:A1', 'A1'), ('A1:B2', 'R1C1')]:
        yield {'op': 'contains', 'r': r_, 'c': c_}

    # --- object histories: use an address object (any subset of its public API, any order), derive new objects from it
    # by every public route, compare each derived object with a fresh one built from its own text
    touches = ['rows', 'cols', 'resolve_range', 'size', 'address', 'abs_address', 'quoted_address', 'hash', 'in',
               'and', 'pow', 'offset', 'is_unbounded_range', 'sort_key', 'str']
    hbases = ['B2:C3', 'A1', 'B2', 'A1:A3', 'C1:D1', 'S!B2:C3', 'S!B2', "'My Sheet'!B2:C3", 'My Sheet!A1', 'Z9:AA10']
    hsheets = ['', 'S', 'T', 'My Sheet', "Bob's sheet"]
    hothers = ['A1', 'C3', 'B2:D4', 'S!C3', 'E5', 'T!A1']
    for t in hbases:
        for s2 in hsheets:
            for pre in ([], ['resolve_range'], ['rows', 'cols'], ['size', 'hash'], list(touches)):
                yield {'op': 'hist', 'text': t, 'pre': pre, 'sheet2': s2, 'ri': 1, 'ci': -1, 'other': 'A1', 'wf': 1}
    for _ in range(4000 if thorough else 700):
        if rng.random() < .6:
            t = rng.choice(hbases)
        else:
            c1, r1 = rng.randint(1, 30), rng.randint(1, 12)     # near the origin: ** with `other` is enumerated
            t = a1(c1, r1, c1 + rng.randint(0, 3), r1 + rng.randint(0, 3))
            if rng.random() < .4:
                t = rng.choice(['S!', "'My Sheet'!"]) + t
        pre = [rng.choice(touches) for _ in range(rng.randint(0, 6))]
        yield {'op': 'hist', 'text': t, 'pre': pre, 'sheet2': rng.choice(hsheets), 'ri': rng.randint(-3, 3),
               'ci': rng.randint(-3, 3), 'other': rng.choice(hothers), 'wf': 1}

    # --- sheet-name helpers
    names = SHEETS + BANG_SHEETS + ["'a'", "'a b'", "'a''b'", "'", "''", "'''", "''''", "'a", "a'", "'a'b'", "a''b",
                                    "' '", "'a''", "x'y'z"]
    for s in names:
        yield {'op': 'quote', 's': s}
        yield {'op': 'unquote', 's': s}
        yield {'op': 'unquote', 's': "'" + s.replace("'", "''") + "'"}
    for _ in range(1500 if thorough else 300):
        s = ''.join(rng.choice(SHEET_ALPHABET + "''!") for _ in range(rng.randint(0, 8)))
        yield {'op': 'quote', 's': s}
        yield {'op': 'unquote', 's': s}
        yield {'op': 'split', 'text': s + rng.choice(['', '!A1', "!'" + s + "'!A1", '!A1:B2']),
               'sheet': rng.choice(['', '', s, 'x'])}

    # --- malformed stream
    alpha = MALFORMED_ALPHABET
    for ln in range(0, 5 if thorough else 4):
        for tup in itertools.product(alpha, repeat=ln):
            txt = ''.join(tup)
            yield {'op': 'parse', 'mode': 'R', 'text': txt, 'sheet': '', 'anchor': None}
            if 'R' in txt or 'C' in txt:
                yield {'op': 'parse', 'mode': 'R', 'text': txt, 'sheet': '', 'anchor': [2, 3]}
    wide = alpha + EXTRA_CHARS
    for _ in range(40000 if thorough else 5000):
        txt = ''.join(rng.choice(alpha if rng.random() < .7 else wide) for _ in range(rng.randint(4, 10)))
        yield {'op': 'parse', 'mode': 'R', 'text': txt, 'sheet': rng.choice(['', '', 'A', 'S 1']),
               'anchor': rng.choice([None, [2, 3], [maxc, maxr]])}
    bases = ['A1', '$B$2', 'A1:B2', '$A$1:$C$3', 'Sheet1!A1', "'My Sheet'!A1:B2", "'it''s'!B2", 'R1C1', 'R[1]C[-1]',
             'R1C1:R2C2', 'A:C', '1:3', 'A1:B2:C3', 'R[2]:R[3]']
    for _ in range(20000 if thorough else 3000):
        b = list(rng.choice(bases))
        for _k in range(rng.randint(1, 2)):
            how = rng.randint(0, 2)
            pos = rng.randint(0, len(b))
            if how == 0:
                b.insert(pos, rng.choice(wide))
            elif how == 1 and b:
                b.pop(min(pos, len(b) - 1))
            elif b:
                b[min(pos, len(b) - 1)] = rng.choice(wide)
        yield {'op': 'parse', 'mode': rng.choice('RRC'), 'text': ''.join(b), 'sheet': '',
               'anchor': rng.choice([None, [2, 3]])}


# ---------------------------------------------------------------------------------------------------------------

def _anchor(c):
    a = c.get('anchor')
    return _FakeCell(a[0], a[1]) if a else None


def _operand(xl, t):
    return xl.AddressRange.create(t)


def _comb(k, x, y):
    return (x & y) if k == 'i' else (x ** y)


def impl(c):
    xl = _xl()
    op = c['op']
    if op == 'parse':
        cls = xl.AddressCell if c['mode'] == 'C' else xl.AddressRange
        return fmt_addr(cls.create(c['text'], sheet=c['sheet'], cell=_anchor(c)))
    if op == 'tuple':
        cls = xl.AddressCell if c['mode'] == 'C' else xl.AddressRange
        a = cls(tuple(c['t']), sheet=c['sheet'])

        def back(f):
            return guard(lambda: fmt_addr(xl.AddressRange.create(f())))
        prints = guard(lambda: f'{T(a.quoted_address)} {T(a.abs_address)} {T(a.coordinate)} {T(a.abs_coordinate)}')
        backs = ' ; '.join(back(f) for f in (lambda: a.address, lambda: a.quoted_address, lambda: a.abs_address,
                                             lambda: a.coordinate, lambda: a.abs_coordinate))
        return f'{fmt_addr(a)} P {prints} B {backs}'
    if op == 'nota':
        c1, r1, c2, r2 = c['t']
        ac, ar = c['anchor']
        cell = _FakeCell(ac, ar)
        is_cell = (c1, r1) == (c2, r2)

        def two(f):
            return f(c1, r1) if is_cell else f(c1, r1) + ':' + f(c2, r2)
        L = xl.get_column_letter
        texts = [two(lambda x, y: f'{L(x)}{y}'), two(lambda x, y: f'${L(x)}${y}'), two(lambda x, y: f'R{y}C{x}'),
                 two(lambda x, y: f'R[{y - ar}]C[{x - ac}]'),
                 two(lambda x, y: f'R[{y - ar + xl.MAX_ROW}]C[{x - ac - xl.MAX_COL}]')]
        outs = [guard(lambda t=t: fmt_addr(xl.AddressRange.create(t, cell=cell))) for t in texts]
        cls = xl.AddressCell if is_cell else xl.AddressRange
        outs.append(guard(lambda: fmt_addr(cls((c1, r1, c2, r2)))))
        return ' ; '.join(outs)
    if op == 'comb':
        return fmt_addr(_comb(c['k'], _operand(xl, c['a']), _operand(xl, c['b'])))
    if op == 'comb3':
        a, b, d = (_operand(xl, c[x]) for x in 'abc')
        if c['side'] == 'l':
            return fmt_addr(_comb(c['k'], _comb(c['k'], a, b), d))
        return fmt_addr(_comb(c['k'], a, _comb(c['k'], b, d)))
    if op == 'assoc':
        a, b = _operand(xl, c['a']), _operand(xl, c['b'])
        k = c['k']
        ab = _comb(k, a, b)
        out = []
        for t in c['cs']:
            d = _operand(xl, t)
            out.append(guard(lambda: short(_comb(k, ab, d))))
            out.append(guard(lambda: short(_comb(k, a, _comb(k, b, d)))))
        return ' '.join(out)
    if op == 'offset':
        a = xl.AddressRange.create(c['text'])
        x1 = a.address_at_offset(row_inc=c['ri'], col_inc=c['ci'])
        x2 = x1.address_at_offset(row_inc=c['rj'], col_inc=c['cj'])
        x3 = a.address_at_offset(row_inc=c['ri'] + c['rj'], col_inc=c['ci'] + c['cj'])
        x4 = a.address_at_offset(row_inc=c['ri'] + xl.MAX_ROW, col_inc=c['ci'] - xl.MAX_COL)
        return (f'{fmt_addr(x1)} ; {fmt_addr(x2)} ; {fmt_addr(x3)} ; {fmt_addr(x4)} ; '
                f'I {a.start.inc_col(c["ci"])} {a.start.inc_row(c["ri"])}')
    if op == 'enum':
        a = xl.AddressRange.create(c['text'])
        h, w = a.size
        head = f'S {h} {w} U {int(bool(a.is_unbounded_range))}'
        if c.get('nolist'):
            return head
        res = guard(lambda: fmt_grid(a.resolve_range))
        if a.is_range:
            return f'{head} ROWS {fmt_grid(a.rows)} COLS {fmt_grid(a.cols)} RES {res}'
        return f'{head} RES {res}'
    if op == 'hist':
        return impl_hist(xl, c)
    if op == 'contains':
        a = xl.AddressRange.create(c['r'])
        if isinstance(a, str):
            raise AttributeError('error code has no __contains__ for addresses')
        return core.enc(c['c'] in a)
    if op == 'quote':
        return T(xl.AddressMixin.quote_sheet(c['s']))
    if op == 'unquote':
        return T(xl.unquote_sheetname(c['s']))
    if op == 'split':
        sh, addr = xl.split_sheetname(c['text'], sheet=c['sheet'])
        return f'{T(sh)} {T(addr)}'
    raise ValueError(op)


def describe(xl, d):
    """every public attribute of an address object, its enumeration included"""
    u = int(bool(d.is_unbounded_range))
    res = guard(lambda: fmt_grid(d.resolve_range))
    ok = 1
    try:
        for row in d.resolve_range:
            for cell in row:
                want = xl.AddressCell((cell.col_idx, cell.row, cell.col_idx, cell.row), sheet=d.sheet)
                if cell != want or cell.sheet != d.sheet or str(cell) != want.address:
                    ok = 0
        if d.is_range:
            if fmt_grid(d.rows) != res or sorted(x for col in d.cols for x in col) != sorted(
                    x for row in d.resolve_range for x in row):
                ok = 0
            if any(c.sheet != d.sheet for row in d.rows for c in row) or \
                    any(c.sheet != d.sheet for col in d.cols for c in col):
                ok = 0
        if d.start.sheet != d.sheet or d.end.sheet != d.sheet or d.has_sheet != bool(d.sheet):
            ok = 0
    except AssertionError:
        pass
    return (f'{fmt_addr(d)} P {T(d.quoted_address)} {T(d.abs_address)} {T(d.coordinate)} {T(d.abs_coordinate)} '
            f'U {u} RES {res} SH {ok}')


def _touch(xl, a, name, other):
    if name in ('rows', 'cols'):
        if a.is_range:
            [list(r) for r in getattr(a, name)]
    elif name == 'hash':
        hash(a)
    elif name == 'in':
        a.start in a
    elif name == 'and':
        a & other
    elif name == 'pow':
        a ** other
    elif name == 'offset':
        a.address_at_offset(1, 1)
    elif name == 'str':
        str(a)
    else:
        getattr(a, name)


def impl_hist(xl, c):
    base = xl.AddressRange.create(c['text'])
    other = c['other']
    for name in c['pre']:
        _touch(xl, base, name, other)
    s2 = c['sheet2']
    cell = _FakeCell(2, 3)

    def d(f):
        try:
            x = f()
        except Exception as exc:   # noqa
            return core.canon_exc(exc)
        if isinstance(x, str):
            return 'E ' + T(x)
        fresh = xl.AddressRange.create(x.address)
        eq = int(x == fresh and hash(x) == hash(fresh) and type(x) is type(fresh))
        return f'D {describe(xl, x)} F {describe(xl, fresh)} EQ {eq}'
    is_cell = not base.is_range
    r1 = guard(lambda: None)
    routes = [
        d(lambda: xl.AddressRange(base)),
        d(lambda: xl.AddressRange(base, sheet=s2)),
        d(lambda: xl.AddressCell(base)) if is_cell else 'NA',
        d(lambda: xl.AddressCell(base, sheet=s2)) if is_cell else 'NA',
        d(lambda: xl.AddressRange.create(base, sheet=s2, cell=cell)),
        d(lambda: base.address_at_offset(c['ri'], c['ci'])),
        d(lambda: base & other),
        d(lambda: base ** other),
    ]
    try:
        x2 = xl.AddressRange(base, sheet=s2)
        for name in c['pre']:
            _touch(xl, x2, name, other)
        routes.append(d(lambda: xl.AddressRange(x2, sheet=s2)))
        routes.append(d(lambda: x2 ** other))
    except Exception as exc:   # noqa
        routes += [core.canon_exc(exc)] * 2
    del r1
    return ' | '.join(routes)


def _n(v):
    return '-' if v is None else str(v)


def model_lines(c):
    op = c['op']
    if op == 'parse':
        an = c.get('anchor')
        return [f"c11 parse {c['mode']} {T(c['text'])} {T(c['sheet'])} {'-' if not an else f'{an[0]},{an[1]}'}"]
    if op == 'tuple':
        return [f"c11 tuple {c['mode']} {' '.join(_n(v) for v in c['t'])} {T(c['sheet'])}"]
    if op == 'nota':
        return [f"c11 nota {' '.join(str(v) for v in c['t'])} {c['anchor'][0]} {c['anchor'][1]}"]
    if op == 'comb':
        return [f"c11 comb {c['k']} {T(c['a'])} {T(c['b'])}"]
    if op == 'comb3':
        return [f"c11 comb3 {c['k']} {c['side']} {T(c['a'])} {T(c['b'])} {T(c['c'])}"]
    if op == 'assoc':
        return [f"c11 assoc {c['k']} {T(c['a'])} {T(c['b'])} {' '.join(T(t) for t in c['cs'])}"]
    if op == 'offset':
        return [f"c11 offset {T(c['text'])} {c['ri']} {c['ci']} {c['rj']} {c['cj']}"]
    if op == 'enum':
        return [f"c11 {'enum0' if c.get('nolist') else 'enum'} {T(c['text'])}"]
    if op == 'hist':
        return [f"c11 hist {T(c['text'])} {T(c['sheet2'])} {c['ri']} {c['ci']} {T(c['other'])}"]
    if op == 'contains':
        return [f"c11 contains {T(c['r'])} {T(c['c'])}"]
    if op in ('quote', 'unquote'):
        return [f"c11 {op} {T(c['s'])}"]
    if op == 'split':
        return [f"c11 split {T(c['text'])} {T(c['sheet'])}"]
    raise ValueError(op)


def governed(c):
    """the property fixes the outcome for well-formed, in-range inputs (generator tag `wf`); everything else
    (malformed text, unbounded/inverted/zero corners, helper functions on arbitrary strings) follows the code"""
    return bool(c.get('wf'))


def _has_bang(c):
    return '!' in c.get('sheet', '')


def finding_key(c, impl_out, model_out):
    # a sheet name containing '!' is legal in Excel but cannot be split off again (split at the first '!')
    if c['op'] == 'tuple' and _has_bang(c) and impl_out and 'NotImplementedError' in impl_out:
        return 'sheet.bang'
    return None


def nontrivial(c):
    return bool(c.get('wf'))


def bucket(c):
    op = c['op']
    if op == 'parse':
        if not c.get('wf'):
            return 'parse:malformed'
        if '!' in c['text'] or c['sheet']:
            return 'parse:sheet'
        return 'parse:r1c1' if c.get('anchor') else 'parse:a1'
    if op == 'tuple':
        return 'tuple:bang' if _has_bang(c) else 'tuple'
    if op == 'comb':
        return 'comb:unbounded' if c.get('ub') else 'comb:sheets' if c.get('ms') else 'comb:' + c['k']
    if op in ('quote', 'unquote', 'split'):
        return 'sheet'
    return op


# ---------------------------------------------------------------------------------------------------------------
# property relations on implementation outputs only

def _parse_fmt(s):
    """'A R s: 1 1 2 2 2 2 s:..' -> dict, or None"""
    p = s.split(' ')
    if len(p) == 10 and p[0] == 'A':
        return {'k': p[1], 'sheet': core.dec(p[2]), 'c1': int(p[3]), 'r1': int(p[4]), 'c2': int(p[5]),
                'r2': int(p[6]), 'h': int(p[7]), 'w': int(p[8]), 'address': core.dec(p[9])}
    return None


def _span(d, maxc, maxr):
    """corners of an address with an unbounded side (stored as 0) read as 1..MAX"""
    c1, c2 = (1, maxc) if 0 in (d['c1'], d['c2']) else (d['c1'], d['c2'])
    r1, r2 = (1, maxr) if 0 in (d['r1'], d['r2']) else (d['r1'], d['r2'])
    return (c1, r1, c2, r2)


def _cells(d):
    return {(x, y) for x in range(d['c1'], d['c2'] + 1) for y in range(d['r1'], d['r2'] + 1)}


def oracles(results):
    xl = _xl()
    maxc, maxr = xl.MAX_COL, xl.MAX_ROW
    combs = {}
    for r in results:
        c = r.case
        if not c.get('wf'):
            continue
        op = c['op']
        out = r.impl
        if op == 'tuple':
            if not legal_sheet(c['sheet']):
                continue
            head, _, rest = out.partition(' P ')
            if ' B ' not in rest:
                yield c, f'printing an address failed: {out[:120]}'
                continue
            backs = rest.split(' B ')[1].split(' ; ')
            want = _parse_fmt(head)
            names = ['address', 'quoted_address', 'abs_address', 'coordinate', 'abs_coordinate']
            for i, (nm, b) in enumerate(zip(names, backs)):
                got = _parse_fmt(b)
                w = dict(want)
                if i >= 3:
                    w['sheet'] = ''
                    w['address'] = w['address'].rsplit('!', 1)[-1] if c['sheet'] else w['address']
                if got != w:
                    yield c, f'{nm} does not parse back to the same address: {core.show(b)[:120]}'
                    break
        elif op == 'parse':
            d = _parse_fmt(out)
            if d is None:
                yield c, f'well-formed address text {c["text"]!r} did not parse: {out[:80]}'
        elif op == 'nota':
            parts = out.split(' ; ')
            if len(set(parts)) != 1 or _parse_fmt(parts[0]) is None:
                yield c, 'A1 / $ / R1C1 / relative R1C1 / wrapped relative / tuple notations disagree: ' + \
                    ' | '.join(core.show(p)[-40:] for p in parts)
            else:
                d = _parse_fmt(parts[0])
                if [d['c1'], d['r1'], d['c2'], d['r2']] != c['t']:
                    yield c, f'notations denote {d} instead of {c["t"]}'
        elif op == 'comb':
            combs[(c['k'], c['a'], c['b'])] = r
            a, b = _parse_fmt(fmt_addr(xl.AddressRange.create(c['a']))), \
                _parse_fmt(fmt_addr(xl.AddressRange.create(c['b'])))
            ca, cb = _span(a, maxc, maxr), _span(b, maxc, maxr)
            d = _parse_fmt(out)
            if a['sheet'] and b['sheet'] and a['sheet'] != b['sheet']:
                if out != 'E ' + T('#VALUE!'):
                    yield c, f'operands on different sheets give {core.show(out)[:60]} instead of #VALUE!'
                continue
            if d is not None and d['sheet'] != (a['sheet'] or b['sheet']):
                yield c, f'result is on sheet {d["sheet"]!r}, the operands are on {a["sheet"]!r} and {b["sheet"]!r}'
            if d is not None and c.get('ub'):
                if (d['h'], d['w']) != (d['r2'] - d['r1'] + 1, d['c2'] - d['c1'] + 1) and 0 not in (
                        d['c1'], d['r1'], d['c2'], d['r2']):
                    yield c, f'size of the result is not its extent: {out[:80]}'
                d = dict(d)
                d['c1'], d['r1'], d['c2'], d['r2'] = _span(d, maxc, maxr)
                d['h'], d['w'] = d['r2'] - d['r1'] + 1, d['c2'] - d['c1'] + 1
            if c['k'] == 'i':
                lo = (max(ca[0], cb[0]), max(ca[1], cb[1]), min(ca[2], cb[2]), min(ca[3], cb[3]))
                empty = lo[0] > lo[2] or lo[1] > lo[3]
                if empty:
                    if out != 'E ' + T('#NULL!'):
                        yield c, f'disjoint rectangles intersect to {core.show(out)[:80]} instead of #NULL!'
                elif d is None or (d['c1'], d['r1'], d['c2'], d['r2']) != lo:
                    yield c, f'intersection is not the common cells {lo}: {out[:80]}'
            else:
                bb = (min(ca[0], cb[0]), min(ca[1], cb[1]), max(ca[2], cb[2]), max(ca[3], cb[3]))
                if d is None or (d['c1'], d['r1'], d['c2'], d['r2']) != bb:
                    yield c, f'union is not the minimal bounding rectangle {bb}: {out[:80]}'
            if d is not None and (d['h'], d['w']) != (d['r2'] - d['r1'] + 1, d['c2'] - d['c1'] + 1):
                yield c, f'size of the result is not its extent: {out[:80]}'
            if c['a'] == c['b'] and not c.get('ub') and out != fmt_addr(xl.AddressRange.create(c['a'])):
                yield c, f'not idempotent: {out[:80]}'
        elif op == 'assoc':
            parts = out.split(' ')
            for t, l_, r_ in zip(c['cs'], parts[0::2], parts[1::2]):
                named = {x.split('!')[0] for x in (c['a'], c['b'], t) if '!' in x}
                if c['k'] == 'i' and len(named) > 1 and l_.startswith('E') and r_.startswith('E'):
                    continue      # operands on different sheets: an error either way (#VALUE! or #NULL!)
                if l_ != r_ or l_.startswith('!'):
                    yield c, f'not associative with c={t}: (a.b).c = {core.show(l_.lstrip("E"))}, ' \
                             f'a.(b.c) = {core.show(r_.lstrip("E"))}'
                    break
        elif op == 'offset':
            parts = out.split(' ; ')
            ds = [_parse_fmt(p) for p in parts[:4]]
            if any(d is None for d in ds):
                yield c, f'offset did not produce addresses: {out[:80]}'
                continue
            if not all(1 <= d['c1'] <= maxc and 1 <= d['r1'] <= maxr for d in ds):
                yield c, f'offset left the sheet: {out[:120]}'
            if parts[1] != parts[2]:
                yield c, 'offsets do not add: ' + core.show(parts[1])[-30:] + ' vs ' + core.show(parts[2])[-30:]
            if parts[3] != parts[0]:
                yield c, 'offset is not periodic in the sheet limits'
            a = _parse_fmt(fmt_addr(xl.AddressRange.create(c['text'])))
            want = ((a['c1'] + c['ci'] - 1) % maxc + 1, (a['r1'] + c['ri'] - 1) % maxr + 1)
            if (ds[0]['c1'], ds[0]['r1']) != want:
                yield c, f'offset is {(ds[0]["c1"], ds[0]["r1"])}, wrap-around arithmetic gives {want}'
        elif op == 'enum':
            m = out.split(' ')
            if m[0] == 'S' and m[3:5] != ['U', '0']:
                yield c, f'a bounded range is classified as unbounded: {out[:40]}'
                continue
            if c.get('nolist'):
                continue
            if 'ROWS' not in m:
                if m[-2:] != ['RES', m[-1]] or m[1:3] != ['1', '1']:
                    yield c, f'cell enumeration: {out[:80]}'
                continue
            h, w = int(m[1]), int(m[2])
            rows = [[tuple(map(int, x.split('.'))) for x in row.split(',')] for row in m[m.index('ROWS') + 1].split(';')]
            cols = [[tuple(map(int, x.split('.'))) for x in col.split(',')] for col in m[m.index('COLS') + 1].split(';')]
            flat = [x for row in rows for x in row]
            rng_ = xl.AddressRange.create(c['text'])
            if len(flat) != h * w or len(set(flat)) != h * w or len(rows) != h or any(len(x) != w for x in rows):
                yield c, f'range does not enumerate height x width = {h}x{w} distinct cells'
            elif not all(xl.AddressCell((x, y, x, y)) in rng_ for (x, y) in flat):
                yield c, 'an enumerated cell is not contained in the range'
            elif sorted(x for col in cols for x in col) != sorted(flat) or m[-1] != m[m.index('ROWS') + 1]:
                yield c, 'rows / cols / resolve_range enumerate different cells'
        elif op == 'hist':
            for i, part in enumerate(out.split(' | ')):
                if not part.startswith('D '):
                    continue
                body, _, eq = part[2:].rpartition(' EQ ')
                dd, _, ff = body.partition(' F ')
                if dd != ff or eq != '1':
                    yield c, f'derived object (route {i}) differs from a fresh object built from its own text: ' \
                             f'{core.show(dd.split(" P ")[0])[-40:]} / RES {dd.split(" RES ")[-1][:60]} vs ' \
                             f'{ff.split(" RES ")[-1][:60]}'
                    break
                if not dd.endswith('SH 1'):
                    yield c, f'derived object (route {i}): an enumerated cell / corner does not carry the sheet'
                    break
        elif op == 'contains':
            a = _parse_fmt(fmt_addr(xl.AddressRange.create(c['r'])))
            x = _parse_fmt(fmt_addr(xl.AddressRange.create(c['c'])))
            inside = a['c1'] <= x['c1'] <= a['c2'] and a['r1'] <= x['r1'] <= a['r2']
            if out != core.enc(inside):
                yield c, f'containment {core.show(out)} but geometry says {inside}'
        elif op == 'comb3':
            combs[(c['k'], c['side'], c['a'], c['b'], c['c'])] = r
    # commutativity, and left/right of sampled triples
    for key, r in combs.items():
        if len(key) == 3:
            k, a, b = key
            o = combs.get((k, b, a))
            if o is not None and a < b:
                if r.impl != o.impl:
                    yield r.case, f'not commutative: {core.show(r.impl)[:60]} vs {core.show(o.impl)[:60]}'
        elif key[1] == 'l':
            o = combs.get((key[0], 'r') + key[2:])
            if o is not None and (r.impl != o.impl or r.impl.startswith('!')):
                yield r.case, f'not associative: (a.b).c = {core.show(r.impl)[:60]}, a.(b.c) = {core.show(o.impl)[:60]}'

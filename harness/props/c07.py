"""C07 — thread isolation (excelutil.py:844-873, 1280-1325; excelformula.py:930-933).  DESIGN.md §7 C07.

Correspondence = a deterministic two-thread scheduler on the REAL library.  Two `threading.Thread` workloads (each
builds/loads its own compiler and runs public operations on it) are run under a baton: exactly one thread runs at a
time and the baton changes hands only at yield points = entries of `ExcelCompiler._evaluate` (cell-evaluation
granularity; class-level monkeypatch installed by this harness, /repo is not touched).  While a scenario runs, the
module-level bookkeeping API (tracker, array context, `_Cell.next_id`, FUNC_META['name_space']) is traced per thread.

  impl(case)   runs the interleaving on the real library; output = every bookkeeping READ of each thread, in order,
               + the cell ids each thread was handed, + (after '##') each thread's results and pass counts
  model        the Lean machine of Pycel/Model/Threads.lean executes the two operation sequences recorded from the
               SOLO runs under the same schedule and predicts every read of the interleaved run
  oracles      each thread's results and pass counts equal its solo run; no public operation raises
"""
import json
import os
import sys
import tempfile
import threading
import types
from fractions import Fraction

from harness import core

ID = 'C07'
LEAN_MODULE = 'Pycel.Props.C07'
NS = 'Pycel.Threads.'
THEOREMS = [NS + t for t in (
    'C07_code_isolating', 'C07_code_lazy_complete', 'C07_code_ctx_fresh', 'C07_shared_enumeration', 'C07_frame', 'C07_step_local',
    'C07_frame_code', 'C07_isolation', 'C07_isolation_code', 'C07_isolation_prop', 'C07_isolation_two',
    'C07_global_tracker_counterexample', 'C07_global_ctx_counterexample', 'C07_shared_meta_counterexample',
    'C07_ids_depend_on_schedule', 'C07_fresh_thread', 'C07_fresh_thread_interleaved', 'C07_fresh_thread_code',
    'C07_fresh_thread_counterexample')]
DESIGN_REF = 'DESIGN.md §7 C07'
RULE = ('scenario = (workload A, workload B, schedule). Workloads: iterative (cycle with a counting plugin function, '
        'several iterations/tolerance settings), CSE array formulas (incl. IF/IFERROR in array context), plain, and '
        'CELL-over-reference (meta); loaded from an openpyxl workbook or from yml/json/pkl files ON the worker '
        'thread; ops evaluate / set_value / trim_graph / evaluate with explicit iterations. Schedules: B runs to '
        'completion, or to its own k-th cell evaluation, inside the j-th cell evaluation of A, for all (j,k) up to the '
        'workload lengths (quick: all j with k in {1,2,mid,completion}); thorough adds every k and random multi-switch '
        'schedules; every workload also alone on a brand-new thread, fresh and warmed-up (thread that has already '
        'evaluated other compilers), and every single public operation on a brand-new thread with the compiler built '
        'elsewhere. Added families: tolerance-driven iterative pairs with DIFFERENT tolerances/iterations (workbook '
        'settings and evaluate(iterations=, tolerance=)), self-referencing counter cell E1=E1+1 inside the cycle, a scalar '
        'CSE formula entered over a range (needs fit_to_range) evaluated FIRST on the thread, pairs with a switch after '
        'EVERY tracker/context API call (finer than the property asks), three live two-thread visibility probes as cases, '
        'and a fresh-vs-warmed-thread comparison of results. Non-trivial = both threads perform bookkeeping reads and '
        'the schedule really interleaves them.')
ASSUMPTIONS = [
    'scheduling granularity is one cell evaluation (entry of ExcelCompiler._evaluate); a preemption between two '
    'bytecodes of a tracker/context method, or inside `_Cell.ctr += 1`, is not exhibited by the model nor by the run',
    'the GIL and numpy/BLAS internal threads are outside the model; the baton makes the run deterministic, so real '
    'parallel timing is not explored',
    'a workload is represented in the model by the sequence of bookkeeping operations recorded from its SOLO run on the '
    'real library; cell values, the graph and the eval context live inside the compiler object and are compared only '
    'through results (oracle), not modelled',
    'two threads sharing ONE compiler are outside the property ("different compiled workbooks")',
    'the yield point and the tracing are monkeypatches installed by the harness on the PUBLIC surface (methods, '
    'properties or plain attributes of the tracker / context singletons, ExcelCompiler._evaluate, _Cell.next_id; dict '
    'subclass for excel_func_meta; logging sets wherever the todo/computed sets live); /repo has no hook. A probe that '
    'cannot be installed is skipped (GAPS): results and pass counts are still compared with the solo run',
]
TRUSTED = ['modelled, not verified: threading.local semantics (an attribute set on one thread is absent on another)',
           'the tracing monkeypatches of harness/props/c07.py']
REQUIRED_BUCKETS = ['probe', 'pair:refs+refs', 'solo:refs-seq', 'pair:conv', 'pair:fine', 'pair:iter+iter', 'pair:iter+array', 'pair:array+iter', 'pair:array+array', 'pair:plain+iter',
                    'pair:iter+plain', 'pair:plain+array', 'pair:array+plain', 'pair:plain+plain', 'solo:fresh',
                    'solo:warm', 'freshop:load', 'freshop:evaluate', 'freshop:set_value', 'freshop:trim_graph']
EXHAUSTIVE = False
EXPLANATION = ('Theorems (Pycel/Props/C07.lean) are about a small-step machine whose state is per-thread locals + per-'
               'workload compiler state + the shared store; WHERE the tracker namespace, the array-context stack, the '
               'name_space binding and the id counter live is a table measured on the live code (Generated/Threads.lean: '
               'two-thread visibility probes, lazy-attribute listing on a fresh thread, snapshot diff of all module-level '
               'mutables). frame/isolation are proved for every schedule and every initial state under the measured '
               'placement; with the tracker or the context stack module-global they are refuted by concrete schedules '
               '(counterexample theorems), so a change of placement breaks C07_code_isolating. The correspondence replays '
               'the operation sequences recorded from SOLO runs of the real library on the machine under the same '
               'schedule and compares every bookkeeping read with the real interleaved run; the oracle compares results '
               'and pass counts with the solo run. Known finding: FUNC_META name_space is module-level (CELL/INDEX over a '
               'reference read through the other compiler).')
PLUGIN = 'c07_plugin'
S = 'Sheet1!'

# ---------------------------------------------------------------------------------------------------------------
# plugin with the counting function


def _install_plugin():
    if PLUGIN in sys.modules:
        return
    mod = types.ModuleType(PLUGIN)

    def passtick(x):
        st = getattr(threading.current_thread(), 'c07', None)
        if st is not None:
            st.ticks += 1
        return x
    mod.passtick = passtick
    sys.modules[PLUGIN] = mod


# ---------------------------------------------------------------------------------------------------------------
# workloads

def _tick(spec):
    # from_file of a yml/json model evaluates its ranges with an eval context built WITHOUT the plugins (they are
    # attached after _from_text returns, and pkl goes through the text form too): a plugin function is only usable
    # in a saved model that has no range
    return spec.get('load', 'excel') == 'excel'


def _wb_iter(spec):
    import openpyxl
    wb = openpyxl.Workbook()
    ws = wb.active
    ws.title = 'Sheet1'
    a = spec.get('a', '0.5')
    ws['A1'] = f'={a}*B1+1'
    ws['C1'] = spec.get('c', 2)
    if spec.get('conv'):
        # pure contraction: the TOLERANCE decides when the passes stop (pass count seen by PASSTICK)
        ws['B1'] = '=PASSTICK(A1)+C1'
        ws['D1'] = '=A1+B1'
    else:
        # E1 counts its own evaluations (never converges: the iteration CAP decides); it is read inside the cycle, so
        # a cell wrongly recalculated within a pass, or a pass cut short, changes E1 and the PASSTICK count
        ws['B1'] = '=PASSTICK(A1)+C1+0*E1'
        ws['D1'] = '=A1+B1'
        ws['E1'] = '=E1+1'
    wb.calculation.iterate = True
    wb.calculation.iterateCount = spec['iters']
    wb.calculation.iterateDelta = float(Fraction(spec['tol']))
    return wb


def _wb_array(spec):
    import openpyxl
    from openpyxl.worksheet.formula import ArrayFormula
    wb = openpyxl.Workbook()
    ws = wb.active
    ws.title = 'Sheet1'
    k = spec.get('k', 2)
    for i, v in enumerate(spec.get('vals', (1, 2, 3)), 1):
        ws[f'A{i}'] = v
    ws['B1'] = ArrayFormula('B1:B3', f'=A1:A3*{k}')
    ws['C1'] = '=SUM(B1:B3)+PASSTICK(0)' if _tick(spec) else '=SUM(B1:B3)+0'
    ws['E1'] = ArrayFormula('E1:F3', '=IFERROR(1/(A1:A3-2),-1)')
    ws['G1'] = ArrayFormula('G1:G2', '=IF(A1:A3>1,A1:A3,B1:B3)')
    ws['H1'] = '=IF(A1>1,B2,E3)+INDEX(G1:G2,2,1)'
    # a scalar entered over a range: only fit_to_range (reading the context pushed for THIS formula) makes it 3 rows
    ws['I1'] = ArrayFormula('I1:I3', f'=A1*{k + 4}')
    ws['J1'] = '=SUM(I1:I3)+I2'
    return wb


def _wb_plain(spec):
    import openpyxl
    wb = openpyxl.Workbook()
    ws = wb.active
    ws.title = 'Sheet1'
    ws['A1'] = spec.get('v', 1)
    ws['A2'] = '=A1*2+PASSTICK(0)' if _tick(spec) else '=A1*2+0'
    ws['A3'] = '=A2+A1'
    ws['A4'] = '=SUM(A1:A3)'
    ws['A5'] = '=IF(A4>3,A2,A3)&"x"'
    return wb


def _wb_meta(spec):
    import openpyxl
    wb = openpyxl.Workbook()
    ws = wb.active
    ws.title = 'Sheet1'
    ws['A1'] = spec.get('v', 10)
    ws['B1'] = '=CELL("contents",OFFSET(A1,0,0))+1'
    ws['C1'] = '=B1*2'
    return wb


_REFS_F = {'D1': '=ROUND(OFFSET(A1,0,A1),0)', 'D2': '=ABS(OFFSET(A1,0,A1))', 'D3': '=IFERROR(INDIRECT("C"&A1),-1)',
           'D4': '=ROUND(INDEX(B1:C2,1,A1),0)', 'D5': '=ROUND(INDIRECT("B"&A1),0)', 'D6': '=LEFT(OFFSET(A1,0,A1),1)',
           'D7': '=ISNUMBER(OFFSET(A1,0,A1))', 'D8': '=INDEX(B1:C2,A1,1)+0', 'D9': '=SUM(INDEX(B1:C2,A1,0))',
           'D10': '=VLOOKUP(A1,OFFSET(A1,0,0,2,3),2,FALSE)', 'D11': '=MOD(OFFSET(A1,0,A1),7)',
           'D12': '=CONCATENATE(OFFSET(A1,0,A1),"x")', 'D13': '=ISBLANK(INDIRECT("C"&A1))'}


def _wb_refs(spec):
    """ordinary wrapped library functions whose argument arrives as a REFERENCE produced at run time (OFFSET /
    INDIRECT / INDEX); two such workbooks hold different values at the same addresses"""
    import openpyxl
    wb = openpyxl.Workbook()
    ws = wb.active
    ws.title = 'Sheet1'
    k = spec.get('scale', 1)
    ws['A1'], ws['A2'] = 1, 2
    ws['B1'], ws['C1'], ws['B2'], ws['C2'] = 2 * k, 3 * k, 5 * k, 4 * k
    for a, f in _REFS_F.items():
        ws[a] = f
    return wb


_WB = {'refs': _wb_refs, 'iter': _wb_iter, 'array': _wb_array, 'plain': _wb_plain, 'meta': _wb_meta}
_EVAL_ALL = {'iter': [S + 'A1', S + 'D1'], 'array': [S + 'J1', S + 'C1', S + 'E1:F3', S + 'H1'],
             'plain': [S + 'A5', S + 'A4'], 'meta': [S + 'C1'], 'refs': [S + a for a in _REFS_F]}
_TMP = None
_FILES = {}


def _spec_key(spec):
    return json.dumps(spec, sort_keys=True)


def _on_thread(f, name='c07-helper'):
    out = {}

    def run():
        try:
            out['r'] = f()
        except BaseException as exc:   # noqa
            out['e'] = exc
    t = threading.Thread(target=run, name=name)
    t.start()
    t.join()
    if 'e' in out:
        raise out['e']
    return out['r']


def _new_compiler(spec):
    from pycel import ExcelCompiler
    return ExcelCompiler(excel=_WB[spec['kind']](spec), plugins=(PLUGIN,))


def _saved_file(spec, ext):
    """serialise the workload's model once (on a helper thread that has evaluated it), return the path"""
    global _TMP
    base = {k: v for k, v in spec.items() if k in ('kind', 'iters', 'tol', 'a', 'c', 'k', 'vals', 'v', 'conv', 'scale')}
    base['load'] = 'excel' if _tick(spec) else ext
    key = _spec_key(base) + ext
    if key not in _FILES:
        if _TMP is None:
            import atexit
            import shutil
            _TMP = tempfile.mkdtemp(prefix='c07-')
            atexit.register(shutil.rmtree, _TMP, ignore_errors=True)

        def make():
            c = _new_compiler(base)
            for a in _EVAL_ALL[base['kind']]:
                c.evaluate(a)
            path = os.path.join(_TMP, f'm{len(_FILES)}')
            c.to_file(path, file_types=(ext,))
            return path + '.' + ext
        _FILES[key] = _on_thread(make)
    return _FILES[key]


def _load(spec):
    """the `load` public operation, on the calling thread"""
    from pycel import ExcelCompiler
    how = spec.get('load', 'excel')
    if how == 'excel':
        return _new_compiler(spec)
    return ExcelCompiler.from_file(_saved_file(spec, how), plugins=(PLUGIN,))


def _canon(v):
    import numpy as np
    if isinstance(v, np.ndarray):
        v = tuple(map(tuple, v.tolist())) if v.ndim == 2 else tuple(v.tolist())
    if isinstance(v, (tuple, list)):
        return '[' + ' '.join(_canon(x) for x in v) + ']'
    return core.enc(v)


def _do_op(c, op):
    kind = op[0]
    if kind == 'eval':
        return _canon(c.evaluate(op[1]))
    if kind == 'eval_kw':
        return _canon(c.evaluate(op[1], iterations=op[2], tolerance=float(Fraction(op[3]))))
    if kind == 'set':
        c.set_value(op[1], op[2])
        return 'ok'
    if kind == 'trim':
        c.trim_graph(op[1], op[2])
        return 'ok'
    if kind == 'run':        # another workbook loaded and evaluated on THIS thread, between this workload's operations
        other = dict(op[1])
        co = _load(other)
        for o in other['ops']:
            _do_op(co, o)
        return 'ok'
    if kind == 'load':       # an extra load on this thread (result discarded)
        _load(dict(op[1]))
        return 'ok'
    raise ValueError(kind)


_WARM = [{'kind': 'iter', 'iters': 2, 'tol': '1/4', 'a': '0.25', 'ops': [['eval', S + 'A1']]},
         {'kind': 'array', 'k': 5, 'ops': [['eval', S + 'C1']]}]


def run_workload_plain(spec):
    """run a workload on the current thread, no scheduler; returns the list of op results (exceptions as !exc)"""
    _install_plugin()
    results = []
    try:
        if spec.get('warm'):
            for w in _WARM:
                cw = _load(w)
                for op in w['ops']:
                    _do_op(cw, op)
        c = spec['_compiler'] if '_compiler' in spec else _load(spec)
        results.append('loaded')
        for op in spec['ops']:
            results.append(_do_op(c, op))
    except Exception as exc:   # noqa
        results.append(core.canon_exc(exc) + ':' + str(exc)[:60].replace(' ', '_').replace('\n', '_'))
    return results


SNAPSHOT_SPECS = [
    {'kind': 'iter', 'iters': 3, 'tol': '1/100', 'ops': [['eval', S + 'A1'], ['set', S + 'C1', 3], ['eval', S + 'D1']]},
    {'kind': 'array', 'ops': [['eval', S + 'C1'], ['eval', S + 'H1']]},
    {'kind': 'meta', 'ops': [['eval', S + 'C1'], ['set', S + 'A1', 3], ['eval', S + 'C1']]},
    {'kind': 'plain', 'ops': [['eval', S + 'A5'], ['trim', [S + 'A1'], [S + 'A5']]]},
]

# ---------------------------------------------------------------------------------------------------------------
# tracing + yield point (monkeypatches, installed on first use by this module only)

_INSTALLED = False


class _TState:
    """per scenario thread: trace, counters, cell naming"""

    def __init__(self, tid, sched):
        self.tid, self.sched = tid, sched
        self.log = []          # (op token, read result token or None)
        self.ticks = 0
        self.names = {}
        self.keep = []
        self.ids = []
        self.results = None
        self.tracing = True
        self.in_api = 0
        self.fine = False      # yield after every bookkeeping API call as well (finer than cell evaluation)

    def sched_fine(self):
        if self.fine and self.sched is not None and self.tracing:
            self.sched.yield_point(self)

    def name(self, obj):
        k = id(obj)
        if k not in self.names:
            self.names[k] = len(self.names) * 2 + self.tid
            self.keep.append(obj)
        return self.names[k]


def _st():
    st = getattr(threading.current_thread(), 'c07', None)
    return st if st is not None and st.tracing else None


def _tol_tok(x):
    if isinstance(x, bool) or not isinstance(x, (int, float)):
        return f'?{type(x).__name__}'
    f = Fraction(x)
    return f'{f.numerator}/{f.denominator}'


def _addr_tok(a):
    if a is None:
        return 'N'
    if a is False:
        return 'F'
    return str(a).split('!')[-1].replace(' ', '_')


GAPS = []          # probes that could not be installed (the run then relies on result-level observation for them)


def _gap(what, exc=None):
    GAPS.append(what if exc is None else f'{what}: {type(exc).__name__}: {exc}')


class LogSet(set):
    """the tracker's todo / computed sets: accesses that do NOT come through the tracker API (code reaching into the
    namespace directly) are traced as operations of their own; unknown accesses become unknown operations"""
    kind = 'todo'

    def _log(self, what, c=None, res=None):
        st = _st()
        if st is not None and not st.in_api:
            st.log.append((what if c is None else f'{what}:{st.name(c)}', res))

    def add(self, c):
        self._log({'todo': 'wip', 'computed': 'calced'}.get(self.kind, '?add-' + self.kind), c)
        set.add(self, c)

    def discard(self, c):
        self._log({'todo': 'untodo', 'computed': 'uncalced'}.get(self.kind, '?discard-' + self.kind), c)
        set.discard(self, c)

    def remove(self, c):
        self._log('?remove-' + self.kind, c)
        set.remove(self, c)

    def clear(self):
        self._log('?clear-' + self.kind)
        set.clear(self)

    def __contains__(self, c):
        r = set.__contains__(self, c)
        self._log('isc' if self.kind == 'computed' else '?in-' + self.kind, c, 'T' if r else 'F')
        return r


def _namespaces(obj):
    """the objects that may hold the state of a tracker/context singleton, however it is stored"""
    import inspect
    out = []
    for name in ('ns', '_ns'):
        try:
            static = inspect.getattr_static(type(obj), name, None)
            if isinstance(static, property):
                continue             # evaluating a lazy property here would change what a fresh thread looks like
            v = getattr(obj, name, None)
        except Exception:   # noqa
            continue
        if v is not None and all(v is not x for x in out):
            out.append(v)
    out.append(obj)
    return out


def _ensure_logsets(obj, extra=None):
    """replace every plain `set` reachable from the singleton's namespace(s) by a LogSet of the same content, in the
    place where it lives (instance dict, or the class if it is a class-level default shared by all threads)"""
    try:
        for ns in ([extra] if extra is not None else []) + _namespaces(obj):
            inst = getattr(ns, '__dict__', {})
            for k, v in list(inst.items()):
                if type(v) is set:
                    ls = LogSet(v)
                    ls.kind = k
                    setattr(ns, k, ls)
            for klass in type(ns).__mro__:
                if klass.__module__ in ('builtins', '_thread', 'threading', '_threading_local'):
                    continue
                for k, v in list(vars(klass).items()):
                    if type(v) is set and k not in inst:
                        ls = LogSet(v)
                        ls.kind = k
                        setattr(klass, k, ls)
    except Exception as exc:   # noqa
        if not any(g.startswith('logsets') for g in GAPS):
            _gap('logsets', exc)


class _LoggedAttr:
    """data descriptor put in place of a PLAIN class attribute of a singleton's class (e.g. a value kept on the
    process-wide object instead of the per-thread namespace): reads are traced like the property they stand for"""

    def __init__(self, name, default, tok, render):
        self.name, self.default, self.tok, self.render = name, default, tok, render
        self.slot = '_c07_' + name

    def __get__(self, obj, owner=None):
        if obj is None:
            return self.default
        v = obj.__dict__.get(self.slot, self.default)
        st = _st()
        if st is not None and not st.in_api:
            st.log.append((self.tok(st), self.render(v)))
            st.sched_fine()
        return v

    def __set__(self, obj, v):
        st = _st()
        if st is not None and not st.in_api:
            st.log.append((f'?set-{self.name}', None))
        obj.__dict__[self.slot] = v


def install():
    """install the yield point and the tracing.  Every probe is installed on the PUBLIC surface of the tracker / the
    array context, whatever kind of attribute it is (function, property, plain value); a probe that cannot be
    installed is recorded in GAPS and never raises: results and pass counts are still compared."""
    global _INSTALLED
    if _INSTALLED:
        return
    _INSTALLED = True
    _install_plugin()
    import importlib
    import inspect
    from pycel import excelcompiler, excelutil
    MISSING = object()

    def wrap_call(fn, tok, render, owner_obj):
        def w(self, *args, **kw):
            st = _st()
            if st is None or st.in_api:
                return fn(self, *args, **kw)
            if owner_obj == 'tracker':
                _ensure_logsets(self)
            try:
                op = tok(st, *args, **kw)
            except Exception:   # noqa  (signature changed)
                op = '?' + getattr(fn, '__name__', 'op')
            st.in_api += 1
            try:
                r = fn(self, *args, **kw)
            except Exception as exc:   # noqa
                st.log.append((op, '!' + type(exc).__name__))
                raise
            finally:
                st.in_api -= 1
            try:
                res = None if render is None else render(r)
            except Exception:   # noqa
                res = '?'
            st.log.append((op, res))
            st.sched_fine()
            return r
        return w

    def probe(cls, name, tok, render, owner_obj):
        """wrap cls.<name> whatever it is"""
        try:
            static = inspect.getattr_static(cls, name, MISSING)
            if static is MISSING:
                return _gap(f'{cls.__name__}.{name} does not exist')
            if isinstance(static, property):
                setattr(cls, name, property(wrap_call(static.fget, tok, render, owner_obj), static.fset, static.fdel))
            elif inspect.isfunction(static):
                setattr(cls, name, wrap_call(static, tok, render, owner_obj))
            elif isinstance(static, (classmethod, staticmethod)):
                _gap(f'{cls.__name__}.{name} is a {type(static).__name__}')
            elif render is not None:
                setattr(cls, name, _LoggedAttr(name, static, tok, render))      # plain value
            else:
                _gap(f'{cls.__name__}.{name} is not callable')
        except Exception as exc:   # noqa
            _gap(f'{cls.__name__}.{name}', exc)

    b = lambda r: 'T' if r else 'F'   # noqa
    try:
        T = type(excelutil.iterative_eval_tracker)
        probe(T, '__call__', lambda st, iterations=100, tolerance=0.001:
              f'call:{int(iterations)}:{_tol_tok(tolerance)}', None, 'tracker')
        probe(T, 'inc_iteration_number', lambda st: 'inc', None, 'tracker')
        probe(T, 'wip', lambda st, c: f'wip:{st.name(c)}', None, 'tracker')
        probe(T, 'calced', lambda st, c: f'calced:{st.name(c)}', None, 'tracker')
        probe(T, 'is_calced', lambda st, c: f'isc:{st.name(c)}', b, 'tracker')
        probe(T, 'tolerance', lambda st: 'tol', lambda r: 't' + _tol_tok(r), 'tracker')
        probe(T, 'done', lambda st: 'done', b, 'tracker')
        static_ns = inspect.getattr_static(T, 'ns', MISSING)
        if isinstance(static_ns, property):
            orig_ns = static_ns.fget

            def ns(self):
                n = orig_ns(self)
                if _st() is not None:
                    _ensure_logsets(self, extra=n)
                return n
            T.ns = property(ns, static_ns.fset, static_ns.fdel)
        else:
            _ensure_logsets(excelutil.iterative_eval_tracker)      # class-level / instance-level sets, right away
    except Exception as exc:   # noqa
        _gap('tracker', exc)
    try:
        A = type(excelutil.in_array_formula_context)
        probe(A, '__call__', lambda st, a: f'cc:{_addr_tok(a)}', None, 'ctx')
        probe(A, '__enter__', lambda st: 'en', None, 'ctx')
        probe(A, '__exit__', lambda st, *a: 'ex', None, 'ctx')
        probe(A, 'ctx_address', lambda st: 'top', lambda r: 'a' + _addr_tok(r), 'ctx')
    except Exception as exc:   # noqa
        _gap('ctx', exc)

    try:
        orig_next = excelcompiler._Cell.next_id.__func__

        def next_id(cls):
            st = _st()
            r = orig_next(cls)
            if st is not None:
                st.log.append(('nid', None))
                st.ids.append(r - st.sched.ctr_base)
            return r
        excelcompiler._Cell.next_id = classmethod(next_id)
    except Exception as exc:   # noqa
        _gap('_Cell.next_id', exc)

    orig_eval = excelcompiler.ExcelCompiler._evaluate      # the yield point itself: without it nothing can run

    def _evaluate(self, address):
        st = getattr(threading.current_thread(), 'c07', None)
        if st is not None and st.sched is not None:
            st.sched.yield_point(st)
        return orig_eval(self, address)
    excelcompiler.ExcelCompiler._evaluate = _evaluate

    class MetaDict(dict):
        fname = '?'

        def __setitem__(self, k, v):
            if k == 'name_space':
                st = _st()
                if st is not None:
                    st.log.append((f'bind:{self.fname}', None))
            dict.__setitem__(self, k, v)

        def __getitem__(self, k):
            v = dict.__getitem__(self, k)
            if k == 'name_space':
                st = _st()
                if st is not None:
                    owner = getattr(getattr(v.get('_C_'), '__self__', None), '_c07_owner', None) \
                        if isinstance(v, dict) else None
                    st.log.append((f'mread:{self.fname}', 'c-' if owner is None else f'c{owner}'))
            return v

    try:
        from pycel.excelformula import ExcelFormula
        from pycel.lib import function_helpers as fh
        for mname in tuple(ExcelFormula.default_modules) + (PLUGIN,):
            mod = importlib.import_module(mname)
            for name, obj in list(vars(mod).items()):
                meta = getattr(obj, fh.FUNC_META, None) if callable(obj) else None
                if isinstance(meta, dict) and not isinstance(meta, MetaDict) and \
                        getattr(obj, '__module__', None) == mod.__name__:
                    md = MetaDict(meta)
                    md.fname = name
                    setattr(obj, fh.FUNC_META, md)
    except Exception as exc:   # noqa
        _gap('FUNC_META', exc)


# ---------------------------------------------------------------------------------------------------------------
# deterministic scheduler

class Sched:
    TIMEOUT = 30

    def __init__(self, slices, tids):
        self.slices = [tuple(s) for s in slices]
        self.tids = list(tids)
        self.cond = threading.Condition()
        self.turn = None
        self.budget = None
        self.finished = {t: False for t in tids}
        self.ctr_base = 0
        self.error = None

    def _advance(self):
        while self.slices:
            tid, n = self.slices.pop(0)
            if tid not in self.finished or self.finished[tid] or n == 0:
                continue
            self.turn, self.budget = tid, n
            self.cond.notify_all()
            return
        for tid in self.tids:
            if not self.finished[tid]:
                self.turn, self.budget = tid, None
                self.cond.notify_all()
                return
        self.turn = None
        self.cond.notify_all()

    def _wait(self, tid):
        if not self.cond.wait_for(lambda: self.turn == tid, timeout=self.TIMEOUT):
            self.error = f'scheduler timeout waiting for turn of {tid}'
            raise RuntimeError(self.error)

    def yield_point(self, st):
        if st.tracing:
            st.log.append(('yp', None))
        else:
            return
        if self.budget is None:      # running to completion: only the running thread ever touches the budget
            return
        with self.cond:
            if self.budget is not None:
                self.budget -= 1
                if self.budget == 0:
                    self._advance()
            self._wait(st.tid)

    def start(self, st):
        with self.cond:
            self._wait(st.tid)

    def finish(self, st):
        with self.cond:
            self.finished[st.tid] = True
            self._advance()


def _fin_tok():
    """snapshot of this thread's bookkeeping at the end of its workload, read the way the library reads it"""
    from pycel.excelutil import in_array_formula_context as ctx
    from pycel.excelutil import iterative_eval_tracker as trk
    MISSING = object()
    tn = getattr(trk, 'ns', None)
    cn = getattr(ctx, 'ns', None)

    def o(ns, k, f, alt=None):
        v = getattr(ns, k, MISSING) if ns is not None else MISSING
        if v is MISSING and alt is not None:
            v = alt()
        try:
            return '-' if v is MISSING else f(v)
        except Exception:   # noqa
            return '?'
    st = _st()
    if st is not None:
        st.in_api += 1
    try:
        return 'fin(%s,%s,%s,%s,%s,%s)' % (
            o(tn, 'iteration_number', str), o(tn, 'iterations', str),
            o(tn, 'tolerance', _tol_tok), o(tn, 'todo', lambda x: str(len(x))),
            o(tn, 'computed', lambda x: str(len(x))), o(cn, 'ctx_addresses', lambda x: str(len(x))))
    finally:
        if st is not None:
            st.in_api -= 1


def run_scenario(specs, slices):
    """specs: {tid: spec}; runs every workload on its own brand-new thread under the schedule.
    returns {tid: dict(log, results, ticks, ids)}"""
    try:
        return _run_scenario(specs, slices)
    except Exception as exc:   # noqa  (preparation on a helper thread failed: reported as the workloads' result)
        msg = core.canon_exc(exc) + ':prepare:' + str(exc)[:60].replace(' ', '_').replace('\n', '_')
        return {t: dict(log=[], results=[msg], ticks=0, ids=[]) for t in specs}


def _run_scenario(specs, slices):
    install()
    from pycel import excelcompiler
    tids = sorted(specs)
    sched = Sched(slices, tids)
    states = {t: _TState(t, sched) for t in tids}
    prepared = {}
    for t in tids:
        spec = specs[t]
        if spec.get('build_on') == 'other':
            # compiler built and prepared on a helper thread; the worker thread is brand new for the ops
            def prep(spec=spec):
                c = _load(spec)
                for op in spec.get('prep', []):
                    _do_op(c, op)
                return c
            prepared[t] = _on_thread(prep)
    for t in tids:
        for sp in [specs[t]] + [op[1] for op in specs[t].get('ops', []) if op[0] == 'load']:
            if sp.get('load', 'excel') != 'excel':
                _saved_file(sp, sp['load'])          # serialised once, on a helper thread, before the run
    sched.ctr_base = excelcompiler._Cell.ctr

    def body(t):
        st = states[t]
        st.fine = bool(specs[t].get('fine'))
        threading.current_thread().c07 = st
        spec = dict(specs[t])
        try:
            sched.start(st)
            if t in prepared:
                spec['_compiler'] = prepared[t]
                prepared[t]._c07_owner = t

            def tagged_load(s):
                c = _load(s)
                c._c07_owner = t      # which thread's compiler a FUNC_META['name_space'] read lands in
                return c
            st.results = _run_tagged(spec, tagged_load)
            if not any(r.startswith('!exc') for r in st.results):
                st.log.append(('fin', _fin_tok()))
        except BaseException as exc:   # noqa
            st.results = (st.results or []) + ['!harness:' + type(exc).__name__ + ':' + str(exc)[:80]]
        finally:
            st.tracing = False
            sched.finish(st)

    threads = [threading.Thread(target=body, args=(t,), name=f'c07-{t}') for t in tids]
    for th in threads:
        th.start()
    with sched.cond:
        sched._advance()
    for th in threads:
        th.join(Sched.TIMEOUT * 2)
    out = {}
    for t in tids:
        st = states[t]
        out[t] = dict(log=st.log, results=st.results or ['!harness:no-result'], ticks=st.ticks, ids=st.ids)
    return out


def _run_tagged(spec, load):
    results = []
    try:
        if spec.get('warm'):
            for w in _WARM:
                cw = load(w)
                for op in w['ops']:
                    _do_op(cw, op)
            st_ = getattr(threading.current_thread(), 'c07', None)
            if st_ is not None:
                st_.ticks = 0          # pass counts are those of the workload proper
        c = spec['_compiler'] if '_compiler' in spec else load(spec)
        results.append('loaded')
        for op in spec['ops']:
            results.append(_do_op(c, op))
    except Exception as exc:   # noqa
        results.append(core.canon_exc(exc) + ':' + str(exc)[:60].replace(' ', '_').replace('\n', '_'))
    return results


# ---------------------------------------------------------------------------------------------------------------
# solo runs (cached): the program of a workload and what it returns when run alone

_SOLO = {}


def solo(spec, tid):
    key = (_spec_key(spec), tid)
    if key not in _SOLO:
        _SOLO[key] = run_scenario({tid: spec}, [])[tid]
    return _SOLO[key]


def n_yields(spec):
    return sum(1 for op, _ in solo(spec, 0)['log'] if op == 'yp')


def _trace_out(runs):
    parts = []
    for t in sorted(runs):
        reads = [r for _, r in runs[t]['log'] if r is not None]
        parts.append(f't{t}=' + ','.join(reads) + f' ids=' + ','.join(map(str, runs[t]['ids'])))
    return ' ; '.join(parts)


def _specs(case):
    return {i: case[k] for i, k in enumerate(('A', 'B')) if case.get(k)}


def _probe(what):
    """live two-thread visibility probes of harness/tablegen/c07.py, as cases of their own"""
    from harness.tablegen import c07 as tg
    if what == 'tracker':
        return 'isolated' if tg.probe_tracker()[0] else 'shared'
    local, _, fresh_ok = tg.probe_ctx()
    if what == 'ctx':
        return 'isolated' if local or not fresh_ok else 'shared'
    return 'isolated' if fresh_ok else 'shared'


def impl(case):
    if 'probe' in case:
        return _probe(case['probe']) + ' ## {}'
    specs = _specs(case)
    runs = run_scenario(specs, case.get('slices', []))
    res = {str(t): dict(results=runs[t]['results'], ticks=runs[t]['ticks']) for t in runs}
    return _trace_out(runs) + ' ## ' + json.dumps(res, sort_keys=True)


def model_lines(case):
    if 'probe' in case:
        return [f'c07 placement {case["probe"]}']
    specs = _specs(case)
    toks = ['c07', 'run'] + [f'{t}:{"*" if n is None else n}' for t, n in case.get('slices', [])]
    for t in (0, 1):
        toks.append('|')
        if t in specs:
            toks += [op for op, _ in solo(specs[t], t)['log']]
    return [' '.join(toks)]


def same(impl_out, model_out):
    return impl_out.split(' ## ')[0].strip() == (model_out or '').strip()


def governed(case):
    return True


def oracles(results):
    alone_by_spec = {}
    for r in results:
        case = r.case
        if 'probe' in case:
            if not r.impl.startswith('isolated'):
                yield case, {'tracker': 'what one thread does through iterative_eval_tracker is visible to another thread',
                             'ctx': 'the array-formula context of one thread is visible to / disturbed by another thread',
                             'ctxfresh': 'the first `with in_array_formula_context(addr)` of a brand-new thread does '
                                         'not see addr'}[case['probe']]
            continue
        if ' ## ' not in r.impl:
            yield case, f'scenario did not run: {r.impl[:200]}'
            continue
        res = json.loads(r.impl.split(' ## ', 1)[1])
        specs = _specs(case)
        for t, spec in specs.items():
            mine = res[str(t)]
            bad = [x for x in mine['results'] if x.startswith('!')]
            alone = solo(spec, t)
            if bad and not case.get('expect_exc'):
                yield case, f'thread {t} ({spec["kind"]}): public operation raised: {bad[0]}'
            elif mine['results'] != alone['results']:
                yield case, (f'thread {t} ({spec["kind"]}) results differ from its solo run: '
                             f'{mine["results"]} vs {alone["results"]}')
            elif mine['ticks'] != alone['ticks']:
                yield case, f'thread {t} ({spec["kind"]}) pass count {mine["ticks"]} differs from solo {alone["ticks"]}'
        if case.get('like'):
            # another workbook loaded and evaluated between this workload's operations, on the same thread
            mine = [x for x, op in zip(res['0']['results'][1:], specs[0]['ops']) if op[0] != 'run']
            ref = solo(case['like'], 0)['results'][1:]
            if mine != ref:
                diff = [(op[1], a, b) for op, a, b in zip(case['like']['ops'], mine, ref) if a != b]
                yield case, f'results differ from the run without the other workbook in between: {diff[:4]}'
            continue
        if len(specs) == 1:
            # a thread that has never used the library gets what a warmed-up thread gets
            sp = specs[0]
            key = _spec_key({k: v for k, v in sp.items() if k != 'warm'})
            alone_by_spec.setdefault(key, []).append((bool(sp.get('warm')), res['0'], case))
    for key, runs in alone_by_spec.items():
        fresh_ = [x for x in runs if not x[0]]
        warm_ = [x for x in runs if x[0]]
        if fresh_ and warm_ and (fresh_[0][1]['results'] != warm_[0][1]['results'] or
                                 fresh_[0][1]['ticks'] != warm_[0][1]['ticks']):
            yield fresh_[0][2], (f'brand-new thread gives {fresh_[0][1]["results"]} (passes {fresh_[0][1]["ticks"]}), '
                                 f'a warmed-up thread {warm_[0][1]["results"]} (passes {warm_[0][1]["ticks"]})')


def finding_key(case, impl_out, model_out):
    if 'probe' in case:
        return None
    specs = _specs(case)
    if len(specs) == 2 and all(s['kind'] == 'meta' for s in specs.values()):
        return 'funcmeta.name_space.shared'
    return None


def nontrivial(case):
    if 'probe' in case:
        return True
    specs = _specs(case)
    if len(specs) < 2:
        return True
    sl = case.get('slices', [])
    return bool(sl) and sl[0][1] is not None and sl[0][1] <= n_yields(specs[0])


def bucket(case):
    if 'probe' in case:
        return 'probe'
    if case.get('bucket'):
        return case['bucket']
    specs = _specs(case)
    if len(specs) == 2:
        return f'pair:{specs[0]["kind"]}+{specs[1]["kind"]}'
    return 'solo:' + ('warm' if specs[0].get('warm') else 'fresh')


# ---------------------------------------------------------------------------------------------------------------
# generator

def _iter_spec(iters, tol, a='0.5', load='excel', extra_ops=True):
    if extra_ops:
        ops = [['eval', S + 'A1'], ['set', S + 'C1', 5], ['eval', S + 'A1'], ['eval', S + 'E1']]
    else:
        ops = [['eval', S + 'A1'], ['eval', S + 'D1']]
    return {'kind': 'iter', 'iters': iters, 'tol': tol, 'a': a, 'load': load, 'ops': ops}


def _conv_spec(tol, a='0.5', c=2, kw=False):
    """tolerance-driven iterative workload; kw: settings passed to evaluate() instead of taken from the workbook"""
    if kw:
        return {'kind': 'iter', 'conv': True, 'iters': 100, 'tol': '1/1000', 'a': a, 'c': c,
                'ops': [['eval_kw', S + 'A1', 60, tol], ['eval', S + 'D1']]}
    return {'kind': 'iter', 'conv': True, 'iters': 60, 'tol': tol, 'a': a, 'c': c,
            'ops': [['eval', S + 'A1'], ['eval', S + 'D1']]}


def _array_spec(k=2, load='excel'):
    return {'kind': 'array', 'k': k, 'load': load,
            'ops': [['eval', S + 'J1'], ['eval', S + 'C1'], ['eval', S + 'E1:F3'], ['eval', S + 'H1'],
                    ['set', S + 'A2', 7], ['eval', S + 'C1'], ['eval', S + 'I1:I3']]}


def _plain_spec(v=1, load='excel'):
    return {'kind': 'plain', 'v': v, 'load': load,
            'ops': [['eval', S + 'A5'], ['set', S + 'A1', 4], ['eval', S + 'A4'],
                    ['trim', [S + 'A1'], [S + 'A5']], ['eval', S + 'A5']]}


def _refs_spec(scale, between=None):
    ev = [['eval', S + a] for a in _REFS_F]
    mid = [['run', between]] if between else []
    return {'kind': 'refs', 'scale': scale, 'ops': ev + mid + [['set', S + 'A1', 2]] + ev}


def _meta_spec(v):
    return {'kind': 'meta', 'v': v, 'ops': [['eval', S + 'C1'], ['set', S + 'A1', v + 1], ['eval', S + 'C1']]}


def _pair_cases(a, b, tier, rng, light=False, jstep=6, ks_fixed=None, bucket_=None):
    na, nb = n_yields(a), n_yields(b)
    thorough = tier == 'thorough'
    js = list(range(1, na + 2))           # na+1: B entirely after A
    if light and not thorough:
        js = sorted(set(js[::jstep] + [1, na]))
    tag = {'bucket': bucket_} if bucket_ else {}
    for j in js:
        if ks_fixed is not None and not thorough:
            ks = ks_fixed
        elif thorough and light:
            ks = sorted(set(range(1, nb + 1, 6)) | set(ks_fixed or []) | {1, nb})
        elif thorough:
            ks = list(range(1, nb + 1)) if nb <= 45 else sorted(set(range(1, nb + 1, 2)) | {1, 2, nb})
        elif light:
            ks = [max(1, nb // 2)]
        else:
            ks = [1 if j % 2 else max(1, nb // 2)]       # alternate: B stops after 1 evaluation / half way
        for k in [None] + ks:
            yield dict({'A': a, 'B': b, 'slices': [[0, j], [1, k], [0, None], [1, None]]}, **tag)
    # B first, A inside B's first evaluations (thread start order reversed)
    yield dict({'A': a, 'B': b, 'slices': [[1, 1], [0, None], [1, None]]}, **tag)
    # ping-pong at every yield point, and random multi-switch schedules
    yield dict({'A': a, 'B': b, 'slices': [[t, 1] for _ in range(max(na, nb) + 1) for t in (0, 1)]}, **tag)
    for _ in range(6 if thorough else 1):
        sl = []
        for _ in range(rng.randint(3, 8)):
            sl.append([rng.randint(0, 1), rng.randint(1, 4)])
        yield dict({'A': a, 'B': b, 'slices': sl}, **tag)


def cases(tier, rng):
    install()
    thorough = tier == 'thorough'
    it1 = _iter_spec(3, '1/100', '0.5')
    it2 = _iter_spec(5, '1/100000', '0.25', extra_ops=False)
    it3 = _iter_spec(2, '1/2', '0.75', extra_ops=False)
    ar1, ar2 = _array_spec(2), _array_spec(3)
    pl1, pl2 = _plain_spec(1), _plain_spec(6)
    kinds = {'iter': [it1, it2, it3], 'array': [ar1, ar2], 'plain': [pl1, pl2]}
    for what in ('tracker', 'ctx', 'ctxfresh'):
        yield {'probe': what}

    # --- every single public operation on a brand-new thread (compiler built and prepared on another thread)
    def fresh(spec, bucket_, **kw):
        s = dict(spec, **kw)
        return {'A': s, 'B': None, 'slices': [], 'bucket': bucket_}
    for load in ('excel', 'yml', 'json', 'pkl'):
        for base in (it1, ar1, pl1):
            yield fresh(dict(base, load=load, ops=[]), 'freshop:load')
            yield fresh(dict(base, load=load), 'solo:fresh')
    for base in (it1, it2, ar1, pl1):
        ev = _EVAL_ALL[base['kind']]
        inp = {'iter': S + 'C1', 'array': S + 'A2', 'plain': S + 'A1', 'meta': S + 'A1'}[base['kind']]
        b0 = dict(base, build_on='other')
        yield fresh(dict(b0, ops=[['eval', ev[0]]]), 'freshop:evaluate')
        yield fresh(dict(b0, prep=[['eval', a] for a in ev], ops=[['eval', ev[-1]]]), 'freshop:evaluate')
        yield fresh(dict(b0, prep=[['eval', a] for a in ev], ops=[['set', inp, 9]]), 'freshop:set_value')
        yield fresh(dict(b0, prep=[['eval', a] for a in ev], ops=[['set', inp, 9], ['eval', ev[0]]]),
                    'freshop:set_value')
        yield fresh(dict(b0, ops=[['trim', [inp], [ev[0]]]]), 'freshop:trim_graph')
        yield fresh(dict(b0, prep=[['eval', a] for a in ev], ops=[['trim', [inp], [ev[0]]], ['eval', ev[0]]]),
                    'freshop:trim_graph')
        if base['kind'] == 'iter':
            # set_value on a cycle cell itself, evaluate with explicit settings
            yield fresh(dict(b0, prep=[['eval', a] for a in ev], ops=[['set', S + 'A1', 3]]), 'freshop:set_value')
            yield fresh(dict(b0, ops=[['eval_kw', ev[0], 3, '1/8']]), 'freshop:evaluate')
    # --- whole workloads alone, warmed-up thread
    for ws in (it1, it2, ar1, pl1):
        yield fresh(dict(ws, warm=True), 'solo:warm')
        for load in ('yml', 'pkl'):
            yield fresh(dict(ws, warm=True, load=load), 'solo:warm')

    # --- pairs
    pairs = []
    for ka in ('iter', 'array', 'plain'):
        for kb in ('iter', 'array', 'plain'):
            a = kinds[ka][0]
            b = kinds[kb][1] if ka == kb else kinds[kb][0]
            pairs.append((a, b))
    for a, b in pairs:
        yield from _pair_cases(a, b, tier, rng)
    extra = [(it2, it3), (dict(it1, warm=True), dict(ar1, warm=True)),
             (dict(it2, load='yml'), dict(it3, load='json')), (dict(ar1, load='pkl'), dict(it3, load='yml'))]
    if thorough:
        extra += [(it3, it2), (dict(ar2, warm=True), dict(it2, warm=True)),
                  (dict(pl1, load='yml'), dict(ar2, load='json')), (dict(it1, load='pkl'), dict(pl2, load='pkl'))]
    for a, b in extra:
        yield from _pair_cases(a, b, tier, rng, light=True)
    # --- tolerance-driven iterative pairs with DIFFERENT tolerances: the looser one starts (or passes an iteration
    #     boundary) while the tighter one is in the middle of a pass, and the other way round
    tight, tight_kw = _conv_spec('1/10000'), _conv_spec('1/100000', kw=True)
    loose, loose_kw = _conv_spec('1/4', a='0.25', c=3), _conv_spec('1/2', a='0.25', c=3, kw=True)
    for a, b in ((tight, loose_kw), (loose, tight_kw), (tight_kw, loose), (it1, loose_kw)):
        yield from _pair_cases(a, b, tier, rng, light=True, jstep=4, ks_fixed=[1], bucket_='pair:conv')
    # --- finer than the property's granularity: a switch after EVERY tracker / array-context API call as well
    arf, plf, itf = dict(ar1, fine=True), dict(pl1, fine=True), dict(it3, fine=True)
    for a, b in ((arf, plf), (arf, dict(ar2, fine=True)), (itf, arf)):
        yield from _pair_cases(a, b, tier, rng, light=True, jstep=1 if b is plf else 5, ks_fixed=[2],
                               bucket_='pair:fine')
    # --- ordinary wrapped functions handed run-time references (OFFSET / INDIRECT / INDEX) in BOTH workbooks, which
    #     hold different values at the same addresses: B loads / binds the same functions between A's evaluations
    rf1, rf10 = _refs_spec(1), _refs_spec(10)
    yield from _pair_cases(rf1, rf10, tier, rng, light=True, jstep=4, ks_fixed=[max(1, n_yields(rf10) // 2)],
                           bucket_='pair:refs+refs')
    yield {'A': _refs_spec(1, between=rf10), 'B': None, 'slices': [], 'like': rf1, 'bucket': 'solo:refs-seq'}
    yield {'A': _refs_spec(10, between=dict(rf1, ops=rf1['ops'][:5])), 'B': None, 'slices': [], 'like': rf10,
           'bucket': 'solo:refs-seq'}
    # --- CELL over a reference in both workloads (FUNC_META['name_space'] is module-level)
    m1, m2 = _meta_spec(10), _meta_spec(700)
    nm = n_yields(m1)
    for j in range(1, nm + 2):
        yield {'A': m1, 'B': m2, 'slices': [[0, j], [1, None], [0, None]], 'bucket': 'pair:meta+meta'}
    yield {'A': m1, 'B': pl1, 'slices': [[0, 2], [1, None], [0, None]], 'bucket': 'pair:meta+plain'}

"""C17 — date serial numbers form Excel's 1900 calendar (lib/date_time.py).  DESIGN.md §7 C17."""
import datetime as _dt
from fractions import Fraction

from harness import core, pyc

ID = 'C17'
LEAN_MODULE = 'Pycel.Props.C17'
NS = 'Pycel.DateTime.'
THEOREMS = [NS + t for t in (
    'C17_consts', 'C17_ord_ymd', 'C17_ymd_valid', 'C17_ymd_ord', 'C17_roundtrip', 'C17_gregorian', 'C17_day60',
    'C17_day0', 'C17_days_1_59', 'C17_weekday_period', 'C17_weekday_succ', 'C17_weekday_range',
    'C17_carry_day', 'C17_carry_month', 'C17_carry', 'C17_first_of_month', 'C17_date_valid', 'C17_date_legal', 'C17_inc_out_of_range', 'C17_eomonth',
    'C17_edate', 'C17_yearfrac_symm', 'C17_hms', 'C17_hms_range', 'C17_range_error_serial', 'C17_range_error_date',
    'C17_range_error_inc')]
DESIGN_REF = 'DESIGN.md §7 C17'
RULE = ('batched sweeps, every element compared with the compiled Lean model. ymd: YEAR/MONTH/DAY/WEEKDAY(n) and '
        'DATE(YEAR,MONTH,DAY) for every serial day 0..2958465 (thorough; quick: every 97th day plus +-3 windows around '
        'serial 0/60/61, every Feb-28/Mar-1/Dec-31 of 1900-1904, century and 400-year boundaries, the last legal day, '
        'and serials just outside the range). date: DATE(y,m,d) for all m,d in -40..60 on boundary + random years, plus '
        'single calls with huge months/days and illegal years. inc: EDATE and EOMONTH for all shifts -1200..1200 from '
        'boundary + random serials. hms: HOUR/MINUTE/SECOND on all 86400 whole seconds, and on seconds + 2/5, 1/2, 3/5, '
        '999/1000, random fractions. yf: YEARFRAC bases 0..4 on boundary x boundary and random pairs, each also called '
        'with the dates swapped. A case is non-trivial when it is a batch or a single call inside the legal range.')
ASSUMPTIONS = [
    'numeric arguments only: integers (DATE, EDATE, EOMONTH, YEARFRAC), integers or floats (YEAR..WEEKDAY, HOUR..SECOND); '
    'the text/logical/blank coercions of excel_helper and non-integer months (TypeError in DATE) are outside this model',
    'CPython datetime/calendar are trusted to be the decomposition modelled by ymd/ord (diffed exhaustively in thorough)',
    'time_from_serialnumber is modelled in exact rational arithmetic on the exact value of the float argument; the '
    'float rounding inside the code (< 1e-9 s for serials < 1, < 1e-6 s up to year 2064) is not modelled',
    'WEEKDAY has a single return type in the code (1 = Sunday..7 = Saturday); only that one is modelled',
    'YEARFRAC values are compared up to 1e-12 relative (float division); the property only fixes their symmetry',
]
TRUSTED = ['modelled, not verified: CPython datetime/timedelta/calendar.monthrange, math.floor, round half even']
REQUIRED_BUCKETS = ['ymd', 'ymd:boundary', 'date', 'date1', 'inc', 'inc1', 'hms:whole', 'hms:frac', 'hms:half', 'yf',
                    'one:out-of-range', 'one']
EXHAUSTIVE = False
EXPLANATION = ('thorough tier: exhaustive over every serial day, every (m,d) in -40..60 for the listed years, every '
               'whole second of a day and every month shift -1200..1200 from the listed serials')

ZERO_ORD = 693594            # only used to build inputs and oracles (independent of pycel)
MAX_INT = 2958466
ERR = {v: 'E' + t for v, t in core.ERR_TAGS.items()}


def _fn(name):
    if name not in pyc._NS:
        try:
            pyc.lib_call(name)
        except Exception:   # noqa  (registers the wrapped function)
            pass
    return pyc._NS[name]


def cv(v):
    """compact canonical form, identical to Drv.C17.cv"""
    if isinstance(v, bool):
        return 'b:1' if v else 'b:0'
    if isinstance(v, int):
        return str(v)
    if isinstance(v, float):
        if v != v or v in (float('inf'), float('-inf')):
            return '!nan'
        f = Fraction(v)
        return str(f.numerator) if f.denominator == 1 else f'{f.numerator}/{f.denominator}'
    if isinstance(v, str) and v in ERR:
        return ERR[v]
    return '!' + core.enc(v)


def call(f, *a):
    try:
        return f(*a)
    except RecursionError:
        return _Exc('RecursionError')
    except Exception as exc:   # noqa
        return _Exc(type(exc).__name__)


class _Exc:
    def __init__(self, name):
        self.name = name


def cvx(v):
    return '!exc:' + v.name if isinstance(v, _Exc) else cv(v)


def serial_of(y, m, d):
    """Excel serial of a real date after 1900-03-01 (independent of pycel)"""
    return _dt.date(y, m, d).toordinal() - ZERO_ORD


# ---------------------------------------------------------------------------------------------------------------
# generators

def _num(x):
    """python number -> 'p/q' token and flag"""
    f = Fraction(x)
    return f'{f.numerator}/{f.denominator}'


def one(fn, x):
    return {'op': 'one', 'fn': fn, 'x': _num(x), 'float': isinstance(x, float)}


def _boundary_serials():
    pts = {0, 1, 2, 31, 32, 58, 59, 60, 61, 62, 365, 366, 367, 368, 1461, 1462, MAX_INT - 1, MAX_INT - 2}
    for y in (1900, 1901, 1903, 1904, 1999, 2000, 2001, 2004, 2099, 2100, 2101, 2200, 2300, 2399, 2400, 2401, 4000,
              8000, 9600, 9996, 9999):
        for (m, d) in ((1, 1), (1, 31), (2, 28), (3, 1), (12, 31), (6, 30), (7, 31)):
            s = serial_of(y, m, d)
            if s > 61:
                pts.add(s)
        if y % 4 == 0 and (y % 100 or y % 400 == 0):
            pts.add(serial_of(y, 2, 29))
    # 400-/100-/4-year cycle boundaries of the proleptic ordinal
    for k in range(5, 25):
        for per in (146097, 36524, 1461):
            s = k * per - ZERO_ORD + 1
            if 61 < s < MAX_INT:
                pts.add(s)
                pts.add(s - 1)
    return sorted(pts)


def cases(tier, rng):
    thorough = tier == 'thorough'
    bnd = _boundary_serials()
    # --- 1. serial sweep
    if thorough:
        for a in range(0, MAX_INT, 2000):
            yield {'op': 'ymd', 'lo': a, 'hi': min(a + 2000, MAX_INT), 'step': 1}
    else:
        off = rng.randrange(97)
        for a in range(off, MAX_INT, 97 * 600):
            yield {'op': 'ymd', 'lo': a, 'hi': min(a + 97 * 600, MAX_INT), 'step': 97}
    for s in bnd:
        yield {'op': 'ymd', 'lo': s - 3, 'hi': s + 4, 'step': 1, 'boundary': True}
    for s in (-3, MAX_INT - 3):
        yield {'op': 'ymd', 'lo': s, 'hi': s + 7, 'step': 1, 'boundary': True}
    for _ in range(40 if thorough else 8):
        s = rng.randrange(62, MAX_INT - 10)
        yield {'op': 'ymd', 'lo': s, 'hi': s + 8, 'step': 1, 'boundary': True}
    # fractional and out-of-range serials, one call each
    for f in ('year', 'month', 'day', 'weekday'):
        for x in (-1, -0.5, -1e-9, 0.5, 59.99, 60.5, 61.25, MAX_INT - 0.5, MAX_INT, MAX_INT + 0.5, MAX_INT + 1,
                  10 ** 7, 1e10, 1e20, -1e20, 36526.75):
            yield one(f, x)
        for _ in range(200 if thorough else 20):
            yield one(f, rng.uniform(0, MAX_INT))
    # --- 2. DATE grid
    years = [0, 1, 4, 99, 100, 400, 1899, 1900, 1901, 1904, 1999, 2000, 2001, 2100, 2400, 9998, 9999]
    years += [rng.randrange(0, 10000) for _ in range(150 if thorough else 4)]
    for y in years:
        yield {'op': 'date', 'y': y, 'm': [-40, 60], 'd': [-40, 60]}
    for y in (-1, 10000, -10 ** 6, 10 ** 6):
        yield {'op': 'date1', 'y': y, 'm': 1, 'd': 1}
    edge = [(9999, 12, 31), (9999, 12, 32), (9999, 13, 1), (9999, 13, 0), (9999, 1, 366), (9999, 1, 365),
            (1900, 1, 0), (1900, 1, -1), (1900, 0, 31), (1900, 0, 30), (1900, 2, 29), (1900, 2, 30), (1900, 3, 0),
            (1900, 1, 60), (1900, 1, 61), (0, 1, 1), (0, 1, 0), (0, 0, 31), (1899, 12, 31), (2001, 3, 0), (2001, 2, 0),
            (2000, 3, 0), (2001, 1, -31), (1900, -30000, 1), (1900, 97200, 1), (1900, 97201, 1), (1900, 1, 2958465),
            (1900, 1, 2958466), (1900, 1, 2958467), (2000, 1, 10 ** 7), (2000, 1, -10 ** 7), (2000, 10 ** 6, 1),
            (2000, -10 ** 6, 1), (9999, -97187, 1), (9999, -97188, 1)]
    for (y, m, d) in edge:
        yield {'op': 'date1', 'y': y, 'm': m, 'd': d}
    for _ in range(3000 if thorough else 300):
        yield {'op': 'date1', 'y': rng.randrange(0, 10000), 'm': rng.randrange(-130000, 130000),
               'd': rng.randrange(-4000000, 4000000)}
    # --- 3. EDATE / EOMONTH
    starts = [0, 1, 30, 31, 32, 59, 60, 61, 62, 89, 90, 91, 366, serial_of(2000, 1, 31), serial_of(2000, 2, 29),
              serial_of(2001, 2, 28), serial_of(2000, 12, 31), serial_of(1999, 8, 31), MAX_INT - 1, MAX_INT - 2,
              MAX_INT - 31, MAX_INT - 32]
    starts += [rng.randrange(0, MAX_INT) for _ in range(200 if thorough else 6)]
    for n in starts:
        yield {'op': 'inc', 'n': n, 'k': [-1200, 1200]}
    for which in ('edate', 'eomonth'):
        for (n, k) in ((-1, 0), (-1, 5), (MAX_INT, 0), (MAX_INT, -1), (10 ** 9, 0), (10, -12), (10, -1), (MAX_INT - 1, 1),
                       (MAX_INT - 1, 0), (MAX_INT - 1, -1), (MAX_INT - 31, 1), (MAX_INT - 32, 1), (61, 200000),
                       (61, -200000), (31, 1), (31, -1), (60, 12), (60, 48), (0, 1), (0, 0), (0, -1), (61, 97187),
                       (61, 97188), (61, -3), (61, -2)):
            yield {'op': 'inc1', 'which': which, 'n': n, 'k': k}
    # --- 4. HOUR / MINUTE / SECOND
    offs = [(0, 1), (1, 2), (3, 5)] + ([(2, 5), (999, 1000), (1, 1000), (499999, 1000000)] if thorough else [])
    for (p, q) in offs:
        for a in range(0, 86400, 1800):
            yield {'op': 'hms', 'day': 0, 'k': [a, a + 1800], 'off': [p, q]}
    for day in ((1, 60, 61, 20000) if thorough else (1, 20000)):
        for (p, q) in ((0, 1), (3, 5), (2, 5)):
            ks = range(0, 86400, 1800) if thorough else [rng.randrange(0, 48) * 1800 for _ in range(3)] + [84600]
            for a in ks:
                yield {'op': 'hms', 'day': day, 'k': [a, a + 1800], 'off': [p, q]}
    for f in ('hour', 'minute', 'second'):
        for x in (-0.1, -1, -1e-12, 0.999999, 0.9999999, 0.99999999, 0.999994, 0.999995, 1 - 2.0 ** -53, 0.5, 0.25,
                  59.6 / 86400, 3599.7 / 86400, 0.0, 1.0):
            yield one(f, x)
        for x in (float(MAX_INT), 1e20):
            yield one(f, x)
        for _ in range(20000 if thorough else 1000):
            yield one(f, rng.random())
    # --- 5. YEARFRAC
    pool = [0, 1, 31, 59, 60, 61, 62, 365, 366, 367, 425, 426, 790, 791, 1155, 1156, 1520, 1521, 1522, 1886, 1887,
            serial_of(2000, 2, 28), serial_of(2000, 2, 29), serial_of(2000, 3, 1), serial_of(2001, 2, 28),
            serial_of(2004, 2, 29), serial_of(2000, 1, 30), serial_of(2000, 1, 31), serial_of(2000, 3, 30),
            serial_of(2000, 3, 31), serial_of(2000, 12, 31), serial_of(2001, 1, 1), serial_of(2100, 2, 28),
            serial_of(2100, 3, 1), MAX_INT - 1]
    prs = [(a, b) for a in pool for b in pool]
    for _ in range(40000 if thorough else 1500):
        a = rng.randrange(0, MAX_INT)
        b = rng.choice((rng.randrange(0, MAX_INT), min(MAX_INT - 1, a + rng.randrange(0, 800)),
                        max(0, a - rng.randrange(0, 800))))
        prs.append((a, b))
    prs += [(-1, 5), (5, -1), (MAX_INT, 5), (5, MAX_INT), (MAX_INT - 1, MAX_INT - 1)]
    for basis in (0, 1, 2, 3, 4):
        for i in range(0, len(prs), 250):
            yield {'op': 'yf', 'basis': basis, 'pairs': [list(p) for p in prs[i:i + 250]]}
    for basis in (-1, 5, 17):
        yield {'op': 'yf', 'basis': basis, 'pairs': [[1, 400], [400, 1]]}


# ---------------------------------------------------------------------------------------------------------------
# implementation and model sides

def _hms_xs(c):
    p, q = c['off']
    off = p / q
    return [c['day'] + (k + off) / 86400 for k in range(c['k'][0], c['k'][1])]


def _arg(c):
    f = Fraction(c['x'])
    if c.get('float') or f.denominator != 1:
        return float(f)
    return int(f)


def impl(c):
    op = c['op']
    if op == 'ymd':
        Y, M, D, W, DT = (_fn(n) for n in ('year', 'month', 'day', 'weekday', 'date'))
        out = []
        for n in range(c['lo'], c['hi'], c['step']):
            y, m, d, w = call(Y, n), call(M, n), call(D, n), call(W, n)
            if all(isinstance(v, int) and not isinstance(v, bool) for v in (y, m, d)):
                r = cvx(call(DT, y, m, d))
            else:
                r = '-'
            out.append(f'{cvx(y)}.{cvx(m)}.{cvx(d)}.{cvx(w)}.{r}')
        return ','.join(out)
    if op == 'date':
        DT = _fn('date')
        y = c['y']
        return ','.join(cvx(call(DT, y, m, d)) for m in range(c['m'][0], c['m'][1] + 1)
                        for d in range(c['d'][0], c['d'][1] + 1))
    if op == 'inc':
        E, O = _fn('edate'), _fn('eomonth')
        n = c['n']
        return ','.join(f'{cvx(call(E, n, k))}:{cvx(call(O, n, k))}' for k in range(c['k'][0], c['k'][1] + 1))
    if op == 'hms':
        H, M, S = _fn('hour'), _fn('minute'), _fn('second')
        return ','.join(f'{cvx(call(H, x))}:{cvx(call(M, x))}:{cvx(call(S, x))}' for x in _hms_xs(c))
    if op == 'yf':
        F = _fn('yearfrac')
        outs = []
        for s, e in c['pairs']:
            v = call(F, s, e, c['basis'])
            outs.append('!exc:' + v.name if isinstance(v, _Exc) else core.enc(v))
        return ','.join(outs)
    if op == 'one':
        return core.enc(pyc.lib_call(c['fn'], _arg(c)))
    if op == 'date1':
        return core.enc(pyc.lib_call('date', c['y'], c['m'], c['d']))
    if op == 'inc1':
        return core.enc(pyc.lib_call(c['which'], c['n'], c['k']))
    raise ValueError(op)


def model_lines(c):
    op = c['op']
    if op == 'ymd':
        return [f"c17 ymd {c['lo']} {c['hi']} {c['step']}"]
    if op == 'date':
        return [f"c17 date {c['y']} {c['m'][0]} {c['m'][1]} {c['d'][0]} {c['d'][1]}"]
    if op == 'inc':
        return [f"c17 inc {c['n']} {c['k'][0]} {c['k'][1]}"]
    if op == 'hms':
        return ['c17 hms ' + ' '.join(_num(x) for x in _hms_xs(c))]
    if op == 'yf':
        return [f"c17 yf {c['basis']} " + ' '.join(f'{s} {e}' for s, e in c['pairs'])]
    if op == 'one':
        return [f"c17 one {c['fn']} {c['x']}"]
    if op == 'date1':
        return [f"c17 date1 {c['y']} {c['m']} {c['d']}"]
    if op == 'inc1':
        return [f"c17 inc1 {c['which']} {c['n']} {c['k']}"]
    raise ValueError(op)


def same(a, b):
    if a == b:
        return True
    if a is None or b is None:
        return False
    xs, ys = a.split(','), b.split(',')
    if len(xs) != len(ys):
        return False
    return all(x == y or core.num_close(x, y) for x, y in zip(xs, ys))


def governed(c):
    op = c['op']
    if op in ('ymd', 'date', 'date1'):
        return True
    if op in ('inc', 'inc1'):
        return c['n'] != 0                 # start 1900-01-00 is a quirk the property does not define shifts of
    if op == 'hms':
        return c['off'] != [1, 2]          # exactly x.5 s: either neighbour is "nearest"; the model follows the code
    if op == 'yf':
        return False                        # values are the code's; the property fixes their symmetry (oracle)
    if op == 'one':
        if c['fn'] in ('hour', 'minute', 'second'):
            x = Fraction(c['x'])
            if x >= MAX_INT:
                return False                # the code decomposes times of illegal serials; the property is silent
            fr = (x * 86400) % 1
            return abs(fr - Fraction(1, 2)) > Fraction(1, 10 ** 5)
        return True
    return True


# ---------------------------------------------------------------------------------------------------------------
# property oracles over implementation outputs only

def _expected_ymd(n):
    if n == 60:
        return (1900, 2, 29)
    if n == 0:
        return (1900, 1, 0)
    d = _dt.date.fromordinal(ZERO_ORD + n + (1 if n < 60 else 0))
    return (d.year, d.month, d.day)


def _days_in_month_xl(y, m):
    if m == 2:
        return 29 if (y % 4 == 0 and y % 100 != 0) or y % 400 == 0 or y == 1900 else 28
    return 31 if m in (1, 3, 5, 7, 8, 10, 12) else 30


def _int(tok):
    try:
        return int(tok)
    except ValueError:
        return None


def oracles(results):
    for r in results:
        c = r.case
        op = c['op']
        if '!' in r.impl:
            bad = [e for e in r.impl.split(',') if '!' in e][0]
            yield c, f'{op}: an exception / non-Excel value escaped: {bad}'
            continue
        if op == 'ymd':
            elems = r.impl.split(',')
            prev = None
            for n, e in zip(range(c['lo'], c['hi'], c['step']), elems):
                y, m, d, w, back = e.split('.')
                if not (0 <= n < MAX_INT):
                    if (y, m, d, w) != ('Enum',) * 4:
                        yield c, f'serial {n} outside 0..{MAX_INT - 1}: YEAR/MONTH/DAY/WEEKDAY = {e}, expected #NUM!'
                        break
                    continue
                if (_int(y), _int(m), _int(d)) != _expected_ymd(n):
                    yield c, f'serial {n}: parts {y}-{m}-{d}, expected {_expected_ymd(n)}'
                    break
                if _int(back) != n:
                    yield c, f'serial {n}: DATE(YEAR, MONTH, DAY) = {back}'
                    break
                wi = _int(w)
                if wi is None or not 1 <= wi <= 7:
                    yield c, f'serial {n}: WEEKDAY = {w}'
                    break
                if prev is not None and (n - prev[0]) % 7 == 0 and wi != prev[1]:
                    yield c, f'WEEKDAY({n}) = {wi} but WEEKDAY({prev[0]}) = {prev[1]} (period 7)'
                    break
                if prev is not None and n - prev[0] == 1 and wi != prev[1] % 7 + 1:
                    yield c, f'WEEKDAY({n}) = {wi} after WEEKDAY({prev[0]}) = {prev[1]}'
                    break
                prev = (n, wi)
        elif op == 'date':
            y = c['y']
            elems = r.impl.split(',')
            nd = c['d'][1] - c['d'][0] + 1
            yy = y + 1900 if 0 <= y < 1900 else y
            for i, m in enumerate(range(c['m'][0], c['m'][1] + 1)):
                row = [_int(e) for e in elems[i * nd:(i + 1) * nd]]
                if not 0 <= y <= 9999:
                    continue
                bad = None
                for j in range(1, nd):
                    if row[j] is not None and row[j - 1] is not None and row[j] != row[j - 1] + 1:
                        bad = j
                        break
                if bad is not None:
                    d = c['d'][0] + bad
                    yield c, f'DATE({y},{m},{d}) = {row[bad]} but DATE({y},{m},{d - 1}) = {row[bad - 1]} (day carry)'
                    break
                # the first of the month lands in the carried month
                first = row[1 - c['d'][0]] if c['d'][0] <= 1 <= c['d'][1] else None
                cy, cm = yy + (m - 1) // 12, (m - 1) % 12 + 1
                inside = (1900, 1) <= (cy, cm) <= (9999, 12)
                if inside and first is None:
                    yield c, f'DATE({y},{m},1) is not a number although {cy}-{cm:02d} is a legal month'
                    break
                if first is not None and first >= 1:
                    got = tuple(pyc.lib_call(f, first) for f in ('year', 'month', 'day'))
                    if got != (cy, cm, 1):
                        yield c, f'DATE({y},{m},1) = {first} = {got}, expected {(cy, cm, 1)} (month carry)'
                        break
        elif op in ('inc', 'inc1'):
            n = c['n']
            if not 0 < n < MAX_INT:
                continue
            y0, m0, d0 = _expected_ymd(n)
            if op == 'inc':
                ks = range(c['k'][0], c['k'][1] + 1)
                pairs = [e.split(':') for e in r.impl.split(',')]
            else:
                v = core.dec(r.impl)
                tok = ERR.get(v, None) if isinstance(v, str) else (str(int(v)) if isinstance(v, Fraction) else None)
                ks = [c['k']]
                pairs = [[tok, None] if c['which'] == 'edate' else [None, tok]]
            for k, (ed, eo) in zip(ks, pairs):
                cy, cm = y0 + (m0 + k - 1) // 12, (m0 + k - 1) % 12 + 1
                inside = (1900, 1) <= (cy, cm) <= (9999, 12)
                msg = None
                if eo is not None:
                    if inside:
                        want = None
                        v = _int(eo)
                        if v is None:
                            msg = f'EOMONTH({n},{k}) = {eo}, but {cy}-{cm:02d} is a legal month'
                        else:
                            want = (cy, cm, _days_in_month_xl(cy, cm))
                            if _expected_ymd(v) != want:
                                msg = f'EOMONTH({n},{k}) = {v} = {_expected_ymd(v)}, expected {want}'
                    elif eo != 'Enum':
                        msg = f'EOMONTH({n},{k}) = {eo}, expected #NUM! (month {cy}-{cm} outside 1900..9999)'
                if msg is None and ed is not None:
                    if inside:
                        v = _int(ed)
                        want = (cy, cm, min(d0, _days_in_month_xl(cy, cm)))
                        if v is None:
                            msg = f'EDATE({n},{k}) = {ed}, but {cy}-{cm:02d} is a legal month'
                        elif _expected_ymd(v) != want:
                            msg = f'EDATE({n},{k}) = {v} = {_expected_ymd(v)}, expected {want}'
                    elif (cy, cm) > (9999, 12) and ed != 'Enum':
                        msg = f'EDATE({n},{k}) = {ed}, expected #NUM!'
                if msg:
                    yield c, msg
                    break
        elif op == 'hms':
            if c['off'] == [1, 2]:
                continue
            for x, e in zip(_hms_xs(c), r.impl.split(',')):
                t = _hms_violation(Fraction(x), e.split(':'))
                if t:
                    yield c, t
                    break
        elif op == 'one' and c['fn'] in ('hour', 'minute', 'second') and governed(c):
            x = Fraction(c['x'])
            if x < 0:
                if r.impl != 'e:num':
                    yield c, f'{c["fn"]}({float(x)}) = {core.show(r.impl)}, expected #NUM!'
                continue
            total = int(x * 86400 + Fraction(1, 2)) % 86400      # nearest second (no tie: governed excludes x.5)
            want = {'hour': total // 3600, 'minute': total // 60 % 60, 'second': total % 60}[c['fn']]
            if r.impl != f'n:{want}/1':
                yield c, f'{c["fn"]}({float(x)!r}) = {core.show(r.impl)}, nearest second is {total} -> {want}'
        elif op == 'one' and c['fn'] in ('year', 'month', 'day', 'weekday'):
            x = Fraction(c['x'])
            if not 0 <= x < MAX_INT and r.impl != 'e:num':
                yield c, f'{c["fn"]}({float(x)!r}) = {core.show(r.impl)}, expected #NUM!'
        elif op == 'date1':
            if not 0 <= c['y'] <= 9999 and r.impl != 'e:num':
                yield c, f'DATE({c["y"]},…) = {core.show(r.impl)}, expected #NUM!'
        elif op == 'yf':
            F = _fn('yearfrac')
            for (s, e), tok in zip(c['pairs'], r.impl.split(',')):
                v = call(F, e, s, c['basis'])
                back = '!exc:' + v.name if isinstance(v, _Exc) else core.enc(v)
                if back != tok:
                    yield c, f'YEARFRAC({s},{e},{c["basis"]}) = {core.show(tok)} but swapped = {core.show(back)}'
                    break


def _hms_violation(x, parts):
    h, m, s = (_int(p) for p in parts)
    if None in (h, m, s):
        return f'HOUR/MINUTE/SECOND({float(x)!r}) = {parts}'
    total = int(x * 86400 + Fraction(1, 2)) % 86400
    want = (total // 3600, total // 60 % 60, total % 60)
    if (h, m, s) != want:
        return f'HOUR:MINUTE:SECOND({float(x)!r}) = {h}:{m}:{s}, nearest second is {total} = {want}'
    return None


def finding_key(c, impl_out, model_out):
    return None


def nontrivial(c):
    if c['op'] == 'one':
        return 0 <= Fraction(c['x']) < MAX_INT
    if c['op'] == 'inc1':
        return 0 <= c['n'] < MAX_INT
    if c['op'] == 'date1':
        return 0 <= c['y'] <= 9999
    return True


def bucket(c):
    op = c['op']
    if op == 'ymd':
        return 'ymd:boundary' if c.get('boundary') else 'ymd'
    if op == 'hms':
        return {(0, 1): 'hms:whole', (1, 2): 'hms:half'}.get(tuple(c['off']), 'hms:frac')
    if op == 'one':
        return 'one' if nontrivial(c) else 'one:out-of-range'
    return op

"""C01 — lazy cache coherence (excelcompiler.py set_value/_reset/_evaluate/_gen_graph).  DESIGN.md §7 C01.

A case is one workbook (nodes in topological order) + one configuration + one whole history:

    {'cfg': 'nodata' | 'xlsx' | 'yml' | 'json' | 'pkl',
     'nodes': [['I', addr, valtok] | ['F', addr, kind, args] | ['R', range_addr, rows, cols, [member nodes]]],
     'ops': [['S', node, valtok] | ['E', node] | ['SR', address | [addresses], [member nodes], [valtoks], nested_cols]
             | ['EL', [nodes]]]}

`impl` drives the REAL ExcelCompiler (in-memory workbook / .xlsx with stored results written by xlsxwriter_min /
to_file + from_file) and returns one token per operation; `model_lines` sends the same workbook and history to the Lean
driver (engine model with the repaired equality test).  `oracles` restates the property on the implementation alone:
every value returned by `evaluate` must equal the value a from-scratch ExcelCompiler of the same workbook with the
current inputs returns for the same address.
"""
import atexit
import itertools
import json
import os
import shutil
import tempfile

from harness import core, pyc
from harness import xlsxwriter_min as xw

ID = 'C01'
LEAN_MODULE = 'Pycel.Props.C01'
NS = 'Pycel.Engine.'
THEOREMS = [NS + t for t in (
    'C01_coherence', 'C01_outputs', 'C01_inputs_current', 'C01_evaluate_keeps_inputs', 'C01_built_after_evaluate',
    'C01_reset_spec', 'C01_setValue_inv', 'C01_evaluate_inv',
    'C01_init_nodata_inv', 'C01_init_stored_inv', 'C01_init_loaded_inv', 'C01_nodata', 'C01_stored', 'C01_loaded',
    'C01_stored_by_evaluation', 'C01_eqv_sound_needed', 'pyEq_not_sound', 'typedEq_sound', 'C01_pyEq_counterexample',
    'C01_blank_write_counterexample', 'C01_stale_stored_counterexample',
    'C01_reset_passthrough_same_under_inv', 'C01_reset_passthrough_counterexample',
    'C01_coherence_ext', 'C01_evaluate_list', 'C01_setMany_inputs', 'tolEq_not_sound',
    'C01_coherence_inst', 'C01_inputs_current_inst')]
DESIGN_REF = 'DESIGN.md §7 C01'
RULE = ('random DAG workbooks (2-14 cells on one or two sheets, blank cells, range nodes incl. 2-D and ranges over '
        'formula cells that read other ranges, cross-sheet references, defined names for cells and ranges; formulas =ref, a&"|"&b…, a+b, a-b, a=b, SUM, COUNT, INDEX, SUM over a range intersection) x '
        'histories of 1-25 set_value/evaluate operations followed by an evaluate of every node, written scalars from '
        '{ints, text, "", TRUE/FALSE, None} biased to the 0/FALSE/None/"" and 1/TRUE collisions, 4% writes to cells not '
        'yet in the cell map; configurations in-memory / .xlsx with stored results / yml / json / pkl round trip. '
        'Deterministic core (seed independent): every history of length <= 3 (quick) / 4 (thorough) over a 7-letter '
        'alphabet on three fixed 4-5 node workbooks, in-memory and .xlsx. A case is non-trivial when an evaluate of a '
        'formula or range node follows an effective set_value of one of its (transitive) precedents.')
ASSUMPTIONS = [
    'non-iterative mode; set_value only on value cells (writing over a formula cell or with set_as_range is outside C01)',
    'formula language of the correspondence: =ref, &, +, SUM, COUNT, INDEX over cells and ranges; integers, non-numeric '
    'text, logicals, blank (no numeric-looking text, no non-integral numbers, no error constants as inputs)',
    'CSE array formulas and computed references (OFFSET/INDIRECT) are not generated',
    'cells whose graph build fails (missing sheet / external workbook) are outside the model: an evaluate of one is '
    'the identity on the model state and must raise in pycel (with stored results pycel may return the stored value); '
    'only cells that a successful evaluate put into the cell map are written in such histories; in-memory and .xlsx '
    'only (a saved model cannot hold an unbuildable cell)',
    'the stored results of the .xlsx configuration are consistent with its formulas (written from a fresh evaluation)',
    'deserialised configurations: every cell is evaluated before to_file, so the saved model is the whole workbook',
]
TRUSTED = ['modelled, not verified: openpyxl load/tokenizer, networkx, ruamel.yaml/json/pickle codecs, the concrete '
           'formula evaluator of pycel (compared only on the generated language)']
REQUIRED_BUCKETS = ['nodata', 'xlsx', 'yml', 'json', 'pkl', 'nodata:exh', 'xlsx:exh', 'nodata:near', 'xlsx:near', 'nodata:fail', 'xlsx:fail', 'nodata:text', 'xlsx:text']
EXHAUSTIVE = False
EXPLANATION = ('theorems: generic engine, all workbooks/histories/value types; correspondence: real ExcelCompiler vs '
               'compiled model per operation, plus implementation-only oracle against a from-scratch compile')

TMP = tempfile.mkdtemp(prefix='c01-')
atexit.register(shutil.rmtree, TMP, ignore_errors=True)
_FRESH = {}
_FRESH_MEMO = {}
_XLSX = {}
_BAD_OUTCOMES = {}


# ---------------------------------------------------------------------------------------------------------------
# workbook description -> Excel cells

def _py(tok):
    v = core.dec(tok)
    from fractions import Fraction
    if isinstance(v, Fraction):
        return int(v) if v.denominator == 1 else float(v)
    return v


def _abs(addr):
    """Sheet1!A1:B2 -> Sheet1!$A$1:$B$2 (destination text of a defined name)"""
    import re
    sheet, _, coord = addr.rpartition('!')
    return sheet + '!' + re.sub(r'([A-Z]+)(\d+)', r'$\1$\2', coord)


def names_of(case_or_names, nodes):
    names = case_or_names or {}
    return {k: _abs(nodes[j][1]) for k, j in names.items()}


def _addr_of(nodes, j, sheet, i=0, names=None):
    """address of node j as written in the formula of cell node i on `sheet` (a defined name when j has one and
    (i + j) % 3 != 2; same-sheet references without the sheet for odd j: every spelling is exercised)"""
    if names:
        for k, t in names.items():
            if t == j and (i + j) % 3 != 2:
                return k
    a = nodes[j][1]
    s, _, coord = a.partition('!')
    if s == sheet and j % 2 == 1:
        return coord
    return a


def formula_of(nodes, i, names=None):
    n = nodes[i]
    sheet = n[1].partition('!')[0]
    kind, args = n[2], n[3]
    ref = lambda j: _addr_of(nodes, j, sheet, i, names)   # noqa
    if kind == 'ref':
        return '=' + ref(args[0])
    if kind == 'cat':
        return '=' + '&"|"&'.join(ref(j) for j in args) + '&"|"'
    if kind == 'add':
        return f'={ref(args[0])}+{ref(args[1])}'
    if kind == 'bad':       # unbuildable: reads a sheet that does not exist / an external workbook, or a cell that does
        parts = [ref(j) for j in args[0]] + [["", "Missing!A1", "[other.xlsx]Sheet1!B2", "'No Such'!C3"][args[1]]]
        return '=' + '+'.join(x for x in parts if x)
    if kind == 'sub':
        return f'={ref(args[0])}-{ref(args[1])}'
    if kind == 'eq':
        return f'={ref(args[0])}={ref(args[1])}'
    if kind == 'sum':
        return '=SUM(' + ','.join(ref(j) for j in args) + ')'
    if kind == 'cnt':
        return '=COUNT(' + ','.join(ref(j) for j in args) + ')'
    if kind == 'idx':
        return f'=INDEX({ref(args[0])},{args[1]},{args[2]})'
    if kind == 'isum':      # range intersection: both operands are declared precedents, only the common cells are read
        plain = lambda j: _addr_of(nodes, j, sheet)   # noqa
        return f'=SUM({plain(args[0])} {plain(args[1])})'
    raise ValueError(kind)


def cells_of(nodes, inputs=None, names=None):
    """{'Sheet!A1': value | '=formula'}; `inputs` overrides the value of input nodes {node: python value}"""
    cells = {}
    for i, n in enumerate(nodes):
        if n[0] == 'I':
            cells[n[1]] = inputs[i] if inputs and i in inputs else _py(n[2])
        elif n[0] == 'F':
            cells[n[1]] = formula_of(nodes, i, names)
    return cells


def is_bad(nodes, i):
    return nodes[i][0] == 'F' and nodes[i][2] == 'bad'


def enc_result(nodes, i, v):
    n = nodes[i]
    if n[0] != 'R':
        return core.enc(v)
    rows, cols = n[2], n[3]
    if not isinstance(v, tuple):
        return '!not-a-tuple:' + core.enc(v)
    if rows > 1 and cols > 1:
        flat = [x for r in v for x in r]
    else:
        flat = list(v)
    if len(flat) != rows * cols:
        return f'!shape:{len(flat)}'
    return ' '.join([f'a:{rows}:{cols}'] + [core.enc(x) for x in flat])


# ---------------------------------------------------------------------------------------------------------------
# implementation side

def build_compiler(cells, names=None):
    """pyc.compiler_from + defined names {'name': "Sheet1!$A$1"} (in-memory openpyxl workbook, no stored results)"""
    if not names:
        return pyc.compiler_from(cells)
    import openpyxl
    from openpyxl.workbook.defined_name import DefinedName
    from pycel import ExcelCompiler
    from pycel.excelutil import AddressCell
    wb = openpyxl.Workbook()
    sheets = {}
    for addr, v in cells.items():
        a = AddressCell(addr)
        if a.sheet not in sheets:
            if not sheets:
                ws = wb.active
                ws.title = a.sheet
            else:
                ws = wb.create_sheet(a.sheet)
            sheets[a.sheet] = ws
        sheets[a.sheet][a.coordinate] = v
    for k, dest in names.items():
        wb.defined_names[k] = DefinedName(k, attr_text=dest)
    return ExcelCompiler(excel=wb)


def _compiler(case, key):
    from pycel import ExcelCompiler
    nodes, cfg = case['nodes'], case['cfg']
    cells = cells_of(nodes, names=case.get('names'))
    dn = names_of(case.get('names'), nodes)
    if cfg == 'nodata':
        return build_compiler(cells, dn)
    base = os.path.join(TMP, f'wb{os.getpid()}')
    if cfg == 'xlsx':
        if case.get('exh'):              # the fixed workbooks of the exhaustive core are written once
            k = json.dumps(nodes)
            if k not in _XLSX:
                bad = {n[1] for n in nodes if n[0] == 'F' and n[2] == 'bad'}
                stored = xw.stored_results({a: v for a, v in cells.items() if a not in bad})
                stored.update({a: '#REF!' for a in bad})
                _XLSX[k] = xw.write_xlsx(f'{base}-fixed{len(_XLSX)}.xlsx', cells, stored)
            return ExcelCompiler(filename=_XLSX[k])
        path = base + '.xlsx'
        bad = {n[1] for n in nodes if n[0] == 'F' and n[2] == 'bad'}
        good = {a: v for a, v in cells.items() if a not in bad}
        stored = xw.stored_results(good, build_compiler(good, dn))
        stored.update({a: '#REF!' for a in bad})       # what Excel stores for a reference it cannot resolve
        xw.write_xlsx(path, cells, stored, dn)
        return ExcelCompiler(filename=path)
    comp = build_compiler(cells, dn)
    for n in nodes:                      # the saved model = everything evaluated once
        if n[0] != 'R':
            comp.evaluate(n[1])
    path = f'{base}.{cfg}'
    for p in (path, base + '.yml'):
        if os.path.exists(p):
            os.unlink(p)
    comp.to_file(path)
    return ExcelCompiler.from_file(path)


def fresh_value(nodes, inputs, i, names=None):
    """value of node i in a from-scratch in-memory compile with the current inputs"""
    k = (json.dumps(nodes), json.dumps(names, sort_keys=True), tuple(sorted((a, repr(b)) for a, b in inputs.items())), i)
    if k not in _FRESH_MEMO:
        if len(_FRESH_MEMO) > 200000:
            _FRESH_MEMO.clear()
        try:
            comp = build_compiler(cells_of(nodes, inputs, names), names_of(names, nodes))
            _FRESH_MEMO[k] = enc_result(nodes, i, comp.evaluate(nodes[i][1]))
        except Exception as exc:   # noqa
            _FRESH_MEMO[k] = core.canon_exc(exc)
    return _FRESH_MEMO[k]


def _in_cell_map(comp, addr):
    from pycel.excelutil import AddressRange
    return AddressRange.create(addr).address in comp.cell_map


def _enc_eval(nodes, comp, a):
    try:
        return enc_result(nodes, a, comp.evaluate(nodes[a][1]))
    except Exception as exc:   # noqa
        return core.canon_exc(exc)


def impl(case):
    nodes = case['nodes']
    names = case.get('names')
    key = json.dumps(case, sort_keys=True)
    comp = _compiler(case, key)
    inputs = {}
    out, fresh = [], []
    for op in case['ops']:
        if op[0] == 'S':
            v = _py(op[2])
            try:
                comp.set_value(nodes[op[1]][1], v)
                inputs[op[1]] = v
                out.append('ok')
            except AssertionError:
                out.append('rej')
            except Exception as exc:   # noqa
                out.append(core.canon_exc(exc))
            fresh.append(None)
        elif op[0] == 'SR':
            # set_value(<range address> | [cell addresses], [values]): cells are written in order until the first one
            # that is not in the cell map (AssertionError); what was written before stays written
            members, vals = op[2], [_py(t) for t in op[3]]
            prefix = 0
            while prefix < len(members) and _in_cell_map(comp, nodes[members[prefix]][1]):
                prefix += 1
            arg = vals
            if len(op) > 4 and op[4]:
                arg = [vals[k:k + op[4]] for k in range(0, len(vals), op[4])]
            try:
                comp.set_value(op[1], arg)
                out.append('ok')
                prefix = len(members)
            except AssertionError:
                out.append('rej')
            except Exception as exc:   # noqa
                out.append(core.canon_exc(exc))
            for j, v in list(zip(members, vals))[:prefix]:
                inputs[j] = v
            fresh.append(None)
        elif op[0] == 'EL':
            try:
                addrs = [nodes[a][1] for a in op[1]]
                res = comp.evaluate(addrs if len(op[1]) % 2 else tuple(addrs))
                out.append('&'.join(enc_result(nodes, a, v) for a, v in zip(op[1], res)))
            except Exception as exc:   # noqa
                out.append(core.canon_exc(exc))
            fresh.append('&'.join(fresh_value(nodes, inputs, a, names) for a in op[1]))
        elif is_bad(nodes, op[1]):
            # an evaluate that fails at graph-build time; the caller carries on.  The cell has no from-scratch value;
            # it must raise (with stored results pycel may hand out the stored value of a cell it had queued)
            r = _enc_eval(nodes, comp, op[1])
            _BAD_OUTCOMES[r.split(':')[0] + ':' + r.split(':')[1] if r.startswith('!exc') else 'value'] = \
                _BAD_OUTCOMES.get(r.split(':')[0] + ':' + r.split(':')[1] if r.startswith('!exc') else 'value', 0) + 1
            out.append('!fail' if r.startswith('!exc') or case['cfg'] == 'xlsx' else r)
            fresh.append(None)
        else:
            out.append(_enc_eval(nodes, comp, op[1]))
            fresh.append(fresh_value(nodes, inputs, op[1], names))
    _FRESH[key] = fresh
    return ';'.join(out)


def same(impl_out, model_out):
    """equal up to float rounding of sums (numbers travel exactly; the model is exact, pycel adds floats)"""
    if impl_out == model_out:
        return True
    a, b = impl_out.split(';'), (model_out or '').split(';')
    if len(a) != len(b):
        return False
    for x, y in zip(a, b):
        if x == y:
            continue
        xs, ys = x.replace('&', ' ').split(' '), y.replace('&', ' ').split(' ')
        if len(xs) != len(ys) or not all(p == q or core.num_close(p, q) for p, q in zip(xs, ys)):
            return False
    return True


# ---------------------------------------------------------------------------------------------------------------
# model side

def model_lines(case):
    nodes = case['nodes']
    cfg = {'nodata': 'nodata', 'xlsx': 'stored'}.get(case['cfg'], 'loaded')
    toks = ['c01', cfg, str(len(nodes))]
    for n in nodes:
        if n[0] == 'I':
            toks += ['I', n[2]]
        elif n[0] == 'F' and n[2] == 'bad':
            toks += ['I', 'z']          # outside the model: never referenced by a healthy node, never written
        elif n[0] == 'F':
            kind, args = n[2], n[3]
            if kind in ('cat', 'sum', 'cnt'):
                toks += ['F', kind, str(len(args))] + [str(j) for j in args]
            elif kind == 'isum':
                toks += ['F', kind, str(args[0]), str(args[1]), str(len(args[2]))] + \
                        [str(x) for p in args[2] for x in p]
            else:
                toks += ['F', kind] + [str(j) for j in args]
        else:
            toks += ['R', str(n[2]), str(n[3])] + [str(j) for j in n[4]]
    for op in case['ops']:
        if op[0] == 'S':
            toks += ['S', str(op[1]), op[2]]
        elif op[0] == 'E' and is_bad(nodes, op[1]):
            toks += ['N']
        elif op[0] == 'E':
            toks += ['E', str(op[1])]
        elif op[0] == 'SR':
            toks += ['M', str(len(op[2]))] + [t for j, v in zip(op[2], op[3]) for t in (str(j), v)]
        else:
            toks += ['X', str(len(op[1]))] + [str(a) for a in op[1]]
    return [' '.join(toks)]


def governed(case):
    return True      # the property fixes the value of every evaluate; set_value acceptance is part of "current inputs"


def oracles(results):
    for r in results:
        key = json.dumps(r.case, sort_keys=True)
        fresh = _FRESH.get(key)
        if fresh is None:
            continue
        outs = r.impl.split(';')
        if len(outs) != len(fresh):
            yield r.case, f'history aborted: {r.impl[:120]}'
            continue
        for k, (o, f) in enumerate(zip(outs, fresh)):
            if f is not None and o != f and not same(o, f):
                op = r.case['ops'][k]
                where = (r.case['nodes'][op[1]][1] if op[0] == 'E' else
                         '[' + ', '.join(r.case['nodes'][a][1] for a in op[1]) + ']')
                yield r.case, (f'op #{k} evaluate({where}) = {core.show(o)} but a from-scratch '
                               f'compile with the current inputs gives {core.show(f)}')
                break
            if o.startswith('!') and o != '!fail':
                yield r.case, f'op #{k} raised/returned a non-Excel value: {o}'
                break


# ---------------------------------------------------------------------------------------------------------------
# classification of the known defect classes (narrow: by the first operation whose outputs differ)

def _first_diff(case, impl_out, ref_out):
    a, b = (impl_out or '').split(';'), (ref_out or '').split(';')
    for k, (x, y) in enumerate(zip(a, b)):
        if x != y:
            return k
    return None


def finding_key(case, impl_out, model_out):
    """xlsx.stored.emptytext: .xlsx with stored results in which some formula's stored result is the empty string
    (openpyxl reads `<v></v>` as None, so that cell looks uncomputed while its dependants carry stored results; the
    reset walk stops at it).  Matches only when the first wrong value is an evaluate of a node that (transitively)
    reads such a formula cell."""
    if case['cfg'] != 'xlsx':
        return None
    nodes, names = case['nodes'], case.get('names')
    empties = {i for i, n in enumerate(nodes) if n[0] == 'F' and fresh_value(nodes, {}, i, names) == 's:'}
    if not empties:
        return None
    ref = model_out
    if ref is None:
        fresh = _FRESH.get(json.dumps(case, sort_keys=True)) or []
        ref = ';'.join(f if f is not None else o for o, f in zip((impl_out or '').split(';'), fresh))
    k = _first_diff(case, impl_out, ref)
    if k is None or case['ops'][k][0] not in ('E', 'EL'):
        return None
    targets = [case['ops'][k][1]] if case['ops'][k][0] == 'E' else case['ops'][k][1]
    clo = _precedents(nodes)
    if any(clo[a] & empties for a in targets):
        return 'xlsx.stored.emptytext'
    return None


# ---------------------------------------------------------------------------------------------------------------
# coverage

def _precedents(nodes):
    deps = []
    for n in nodes:
        if n[0] == 'I':
            deps.append(set())
        elif n[0] == 'F':
            deps.append(set(n[3][:1]) if n[2] == 'idx' else set(n[3][:2]) if n[2] == 'isum' else
                        set(n[3][0]) if n[2] == 'bad' else set(n[3]))
        else:
            deps.append(set(n[4]))
    clo = []
    for i, d in enumerate(deps):
        c = set(d)
        for j in d:
            c |= clo[j]
        clo.append(c)
    return clo


def nontrivial(case):
    nodes = case['nodes']
    clo = _precedents(nodes)
    cur = {i: n[2] for i, n in enumerate(nodes) if n[0] == 'I'}
    changed = set()
    for op in case['ops']:
        writes = [(op[1], op[2])] if op[0] == 'S' else list(zip(op[2], op[3])) if op[0] == 'SR' else []
        for i, v in writes:
            if nodes[i][0] == 'I' and cur.get(i) != v:
                cur[i] = v
                changed.add(i)
        for a in ([op[1]] if op[0] == 'E' else op[1] if op[0] == 'EL' else []):
            if clo[a] & changed:
                return True
    return False


def bucket(case):
    return case['cfg'] + (':exh' if case.get('exh') else ':near' if case.get('near') else
                          ':fail' if case.get('fail') else ':text' if case.get('text') else '')


# ---------------------------------------------------------------------------------------------------------------
# generators

OTHER_SHEETS = ['Data 2', "O'Brien", 'a-b.c (1)', 'Été_2', "it's 100%"]
INTS = [0, 1, -1, 2, 5, 10, -3, 7]
TEXTS = ['a', 'b', '', 'x y', 'Zz']


def _tok(v):
    return core.enc_text(v) if isinstance(v, str) else core.enc(v)


def rand_value(rng):
    r = rng.random()
    if r < 0.18:
        return None
    if r < 0.30:
        return rng.choice([True, False])
    if r < 0.50:
        return rng.choice([0, 1])
    if r < 0.75:
        return rng.choice(INTS)
    if r < 0.82:
        return ''
    return rng.choice(TEXTS)


def colname(c):
    return 'ABCDEFG'[c - 1]


def gen_workbook(rng, free_ranges=True):
    """-> nodes (topological).  Cells of Sheet1 row-major with the cells of an optional Sheet2 interleaved."""
    ncols, nrows = rng.randint(1, 3), rng.randint(2, 4)
    order = [('Sheet1', c, r) for r in range(1, nrows + 1) for c in range(1, ncols + 1)]
    grids = {'Sheet1': (ncols, nrows)}
    if rng.random() < 0.35:
        k = rng.randint(1, 3)
        other = rng.choice(OTHER_SHEETS)
        grids[other] = (1, k)
        for r in range(1, k + 1):
            order.insert(rng.randint(r - 1 if r > 1 else 0, len(order)), (other, 1, r))
        # keep Sheet2 rows in increasing order
        pos = [i for i, o in enumerate(order) if o[0] == other]
        for p, r in zip(pos, range(1, k + 1)):
            order[p] = (other, 1, r)
    nodes, index, rng_index = [], {}, {}
    placed = set()

    def sheet_q(s):
        return s if s.isalnum() else "'" + s.replace("'", "''") + "'"

    def rects():
        out = []
        for s, (nc, nr) in grids.items():
            for c1 in range(1, nc + 1):
                for c2 in range(c1, nc + 1):
                    for r1 in range(1, nr + 1):
                        for r2 in range(r1, nr + 1):
                            size = (c2 - c1 + 1) * (r2 - r1 + 1)
                            if 2 <= size <= 6 and all((s, c, r) in placed for c in range(c1, c2 + 1)
                                                      for r in range(r1, r2 + 1)):
                                out.append((s, c1, r1, c2, r2))
        return out

    def range_node(rect):
        if rect not in rng_index:
            s, c1, r1, c2, r2 = rect
            members = [index[(s, c, r)] for r in range(r1, r2 + 1) for c in range(c1, c2 + 1)]
            nodes.append(['R', f'{sheet_q(s)}!{colname(c1)}{r1}:{colname(c2)}{r2}', r2 - r1 + 1, c2 - c1 + 1, members])
            rng_index[rect] = len(nodes) - 1
        return rng_index[rect]

    p_formula = rng.choice([0.35, 0.5, 0.65])
    for pos in order:
        s, c, r = pos
        addr = f'{sheet_q(s)}!{colname(c)}{r}'
        cellnodes = [i for i, n in enumerate(nodes) if n[0] != 'R']
        if cellnodes and rng.random() < p_formula:
            rs = rects()
            kind = rng.choice(['ref', 'cat', 'cat', 'add', 'sub', 'eq', 'sum', 'sum', 'cnt', 'idx', 'isum'])
            pairs = []
            if kind == 'isum':
                # two rectangles of one sheet sharing at least two cells (a one-cell intersection is a cell
                # reference computed at run time, C04's subject)
                for x in rs:
                    for y in rs:
                        if x != y and x[0] == y[0]:
                            c1, r1, c2, r2 = max(x[1], y[1]), max(x[2], y[2]), min(x[3], y[3]), min(x[4], y[4])
                            if c1 <= c2 and r1 <= r2 and (c2 - c1 + 1) * (r2 - r1 + 1) >= 2:
                                pairs.append((x, y, [[r - x[2], c - x[1]] for r in range(r1, r2 + 1)
                                                     for c in range(c1, c2 + 1)]))
                if not pairs:
                    kind = 'sum'
            if kind in ('idx',) and not rs:
                kind = 'cat'
            if kind == 'ref':
                args = [rng.choice(cellnodes)]
            elif kind == 'cat':
                args = [rng.choice(cellnodes) for _ in range(rng.randint(1, 3))]
            elif kind in ('add', 'sub', 'eq'):
                args = [rng.choice(cellnodes), rng.choice(cellnodes)]
            elif kind == 'isum':
                x, y, ipos = rng.choice(pairs)
                args = [range_node(x), range_node(y), ipos]
            elif kind in ('sum', 'cnt'):
                args = []
                for _ in range(rng.randint(1, 3)):
                    if rs and rng.random() < 0.7:
                        args.append(range_node(rng.choice(rs)))
                    else:
                        args.append(rng.choice(cellnodes))
            else:
                rect = rng.choice(rs)
                rn = range_node(rect)
                args = [rn, rng.randint(1, nodes[rn][2]), rng.randint(1, nodes[rn][3])]
            nodes.append(['F', addr, kind, args])
        else:
            nodes.append(['I', addr, _tok(rand_value(rng))])
        index[pos] = len(nodes) - 1
        placed.add(pos)
    if free_ranges:
        rs = [x for x in rects() if x not in rng_index]
        rng.shuffle(rs)
        for rect in rs[:rng.randint(0, 2)]:
            range_node(rect)
    return nodes


def _grid(nodes):
    """(sheet text, col, row) -> node for the cell nodes"""
    import re
    g = {}
    for i, n in enumerate(nodes):
        if n[0] != 'R':
            sheet, _, coord = n[1].rpartition('!')
            m = re.fullmatch(r'([A-Z])(\d+)', coord)
            g[(sheet, ord(m.group(1)) - 64, int(m.group(2)))] = i
    return g


def input_rects(nodes):
    """rectangles (2..6 cells) all of whose cells are value cells: (address, member nodes row-major, cols)"""
    g = _grid(nodes)
    out = []
    for sheet in sorted({k[0] for k in g}):
        cols = max(k[1] for k in g if k[0] == sheet)
        rows = max(k[2] for k in g if k[0] == sheet)
        for c1 in range(1, cols + 1):
            for c2 in range(c1, cols + 1):
                for r1 in range(1, rows + 1):
                    for r2 in range(r1, rows + 1):
                        cells = [(sheet, c, r) for r in range(r1, r2 + 1) for c in range(c1, c2 + 1)]
                        if 2 <= len(cells) <= 6 and all(k in g and nodes[g[k]][0] == 'I' for k in cells):
                            out.append((f'{sheet}!{colname(c1)}{r1}:{colname(c2)}{r2}', [g[k] for k in cells],
                                        c2 - c1 + 1))
    return out


def gen_multi_write(rng, nodes, rects, inputs, value=None):
    """one set_value of several cells: a range address (flat or nested values) or a list of cell addresses"""
    value = value or (lambda j: rand_value(rng))
    if rects and rng.random() < 0.7:
        addr, members, cols = rng.choice(rects)
        nested = cols if (cols > 1 and len(members) > cols and rng.random() < 0.5) else 0
        return ['SR', addr, members, [_tok(value(j)) for j in members], nested]
    members = rng.sample(inputs, min(len(inputs), rng.randint(2, 3)))
    return ['SR', [nodes[j][1] for j in members], members, [_tok(value(j)) for j in members], 0]


def gen_history(rng, nodes, built_all, strict=False):
    """strict (workbooks with unbuildable cells): write only to value cells that a SUCCESSFUL evaluate has put into the
    cell map (a failed build leaves an unspecified part of its closure there), lists hold healthy cells only"""
    inputs = [i for i, n in enumerate(nodes) if n[0] == 'I']
    healthy = [i for i in range(len(nodes)) if not is_bad(nodes, i)]
    built = set(range(len(nodes))) if built_all else set()
    clo = _precedents(nodes)
    rects = input_rects(nodes)
    if strict:
        rects = []
    ops = []
    for _ in range(rng.randint(1, 25)):
        r = rng.random()
        if inputs and r < 0.12 and len(inputs) >= 2 and not strict:
            ops.append(gen_multi_write(rng, nodes, rects, inputs))
        elif inputs and r < 0.5:
            cand = [i for i in inputs if i in built]
            if strict and not cand:
                continue
            if not cand or (rng.random() < 0.04 and not strict):
                cand = inputs
            i = rng.choice(cand)
            ops.append(['S', i, _tok(rand_value(rng))])
        elif r < 0.58:
            tg = [rng.choice(healthy) for _ in range(rng.randint(1, 3))]
            ops.append(['EL', tg])
            for a in tg:
                built |= {a} | clo[a]
        else:
            a = rng.randrange(len(nodes))
            ops.append(['E', a])
            if not is_bad(nodes, a):
                built |= {a} | clo[a]
    tail = list(range(len(nodes)))
    rng.shuffle(tail)
    ops += [['E', a] for a in tail]
    return ops


def add_unbuildable(rng, nodes):
    """append 1-3 cells whose graph build fails: they read a missing sheet / an external workbook, directly or through
    another such cell, next to healthy precedents at any position of the formula"""
    cells = [i for i, n in enumerate(nodes) if n[0] != 'R']
    bad = []
    for b in range(rng.randint(1, 3)):
        deps = rng.sample(cells, min(len(cells), rng.randint(0, 2)))
        via = [x for x in bad if rng.random() < 0.5]
        missing = rng.choice([1, 1, 2, 3]) if (not via or rng.random() < 0.6) else 0
        args = deps + via
        rng.shuffle(args)
        nodes.append(['F', f'Sheet1!F{b + 1}', 'bad', [args, missing]])
        bad.append(len(nodes) - 1)
    return nodes


# --- writes that are nearly equal to the current value, under formulas that amplify the difference

def near_value(rng, v):
    """a number different from v but very close to it (or v itself, or a plain change)"""
    import math
    v = 0 if v is None or isinstance(v, (str, bool)) else v
    r = rng.random()
    if v == 0:
        return rng.choice([2.0 ** -40, 2.0 ** -30, 1e-9, 1e-12, 0, 1, None])
    if r < 0.25 and float(v).is_integer() and abs(v) >= 1000:
        return int(v) + rng.choice([1, -1])
    if r < 0.45:
        return math.nextafter(float(v), math.inf if rng.random() < 0.5 else -math.inf)
    if r < 0.8:
        return float(v) * (1 + rng.choice([1, -1]) * 2.0 ** -rng.randint(20, 40))     # relative 1e-6 … 1e-12
    if r < 0.9:
        return v
    return rng.choice([0, float(v) + 1, int(v) if float(v).is_integer() else v])


NEAR_BASES = [1000000, 1048576, 1.0, 0, 0.5, -250000, 3, 123456789, 1e-3, 4096.25]


def gen_near(rng):
    """value cells in pairs holding the same number, formulas a-b, a=b, a+b, SUM/COUNT/INDEX over them"""
    npairs = rng.randint(1, 3)
    nodes = []
    for p in range(npairs):
        b = rng.choice(NEAR_BASES)
        nodes.append(['I', f'Sheet1!A{p + 1}', _tok(b)])
        nodes.append(['I', f'Sheet1!B{p + 1}', _tok(b if rng.random() < 0.8 else near_value(rng, b))])
    inputs = list(range(len(nodes)))
    rn = None
    if rng.random() < 0.7:
        nodes.append(['R', f'Sheet1!A1:B{npairs}', npairs, 2, inputs[:]])
        rn = len(nodes) - 1
    row = npairs + 1
    for k in range(rng.randint(2, 5)):
        cellnodes = [i for i, n in enumerate(nodes) if n[0] != 'R']
        kind = rng.choice(['sub', 'sub', 'eq', 'eq', 'add', 'sum', 'ref', 'idx', 'cnt'])
        if kind in ('sum', 'idx', 'cnt') and rn is None:
            kind = 'sub'
        if kind in ('sub', 'eq'):
            p = rng.randrange(npairs)
            # arithmetic and `=` read value cells only: the model is exact, pycel computes in floats, and a rounding
            # error (relative 1e-16, tolerated by `same`) would be amplified by a chained subtraction or flip an `=`
            args = [2 * p, 2 * p + 1] if rng.random() < 0.7 else [rng.choice(inputs), rng.choice(inputs)]
        elif kind == 'add':
            args = [rng.choice(inputs), rng.choice(inputs)]
        elif kind == 'ref':
            args = [rng.choice(cellnodes)]
        elif kind == 'idx':
            args = [rn, rng.randint(1, npairs), rng.randint(1, 2)]
        else:
            args = [rn] + ([rng.choice(inputs)] if rng.random() < 0.4 else [])
        nodes.append(['F', f'Sheet1!{colname(1 + k % 3)}{row + k // 3}', kind, args])
    # history: evaluate, then near-equal writes (single and multi-cell), evaluate again
    cur = {i: _py(nodes[i][2]) for i in inputs}
    rects = input_rects(nodes)
    ops = [['E', a] for a in range(len(nodes)) if rng.random() < 0.8]
    for _ in range(rng.randint(1, 8)):
        r = rng.random()
        if r < 0.45:
            i = rng.choice(inputs)
            v = near_value(rng, cur[i])
            cur[i] = v
            ops.append(['S', i, _tok(v)])
        elif r < 0.6:
            op = gen_multi_write(rng, nodes, rects, inputs, value=lambda j: near_value(rng, cur[j]))
            for j, t in zip(op[2], op[3]):
                cur[j] = _py(t)
            ops.append(op)
        else:
            ops.append(['E', rng.randrange(len(nodes))])
    tail = list(range(len(nodes)))
    rng.shuffle(tail)
    return nodes, ops + [['E', a] for a in tail]


# --- text writes that are equal to the current value under some normalisation, but different values

TEXT_BASES = ['abc', 'ABC', 'Abc', ' abc', 'abc ', '', None, '1', 1, 'TRUE', True, 'false', False, '\u00e9t\u00e9',
              'e\u0301te\u0301', 'Stra\u00dfe', 'x  y', '0', 0]


def text_variant(rng, v):
    """a value that a sloppy comparison could take for v: other letter case, added/removed blanks, '' vs blank,
    "1" vs 1, "TRUE" vs TRUE, the other Unicode normal form"""
    import unicodedata
    if v is None:
        return rng.choice(['', ' ', 0, False])
    if isinstance(v, bool):
        return rng.choice(['TRUE' if v else 'FALSE', 'true' if v else 'false', int(v)])
    if isinstance(v, int):
        return rng.choice([str(v), f' {v}', bool(v) if v in (0, 1) else str(v), f'{v}.0'])
    opts = [v.upper(), v.lower(), v.swapcase(), v.title(), ' ' + v, v + ' ', v.strip(),
            unicodedata.normalize('NFC', v), unicodedata.normalize('NFD', v)]
    if v == '':
        opts += [None, ' ']
    if v.strip().lstrip('-').isdigit():
        opts += [int(v.strip())]
    if v.strip().upper() in ('TRUE', 'FALSE'):
        opts += [v.strip().upper() == 'TRUE']
    opts = [o for o in opts if not (type(o) is type(v) and o == v)] or [v + ' ']
    return rng.choice(opts)


def gen_textnear(rng):
    k = rng.randint(2, 4)
    nodes = [['I', f'Sheet1!A{r + 1}', _tok(rng.choice(TEXT_BASES))] for r in range(k)]
    inputs = list(range(k))
    rn = None
    if rng.random() < 0.6:
        nodes.append(['R', f'Sheet1!A1:A{k}', k, 1, inputs[:]])
        rn = len(nodes) - 1
    for j in range(rng.randint(2, 4)):
        cellnodes = [i for i, n in enumerate(nodes) if n[0] != 'R']
        kind = rng.choice(['cat', 'cat', 'cat', 'ref', 'idx'])
        if kind == 'idx' and rn is None:
            kind = 'cat'
        if kind == 'cat':
            args = [rng.choice(cellnodes) for _ in range(rng.randint(1, 3))]
        elif kind == 'ref':
            args = [rng.choice(cellnodes)]
        else:
            args = [rn, rng.randint(1, k), 1]
        nodes.append(['F', f'Sheet1!B{j + 1}', kind, args])
    cur = {i: _py(nodes[i][2]) for i in inputs}
    ops = [['E', a] for a in range(len(nodes)) if rng.random() < 0.85]
    for _ in range(rng.randint(1, 8)):
        if rng.random() < 0.55:
            i = rng.choice(inputs)
            v = text_variant(rng, cur[i]) if rng.random() < 0.85 else rng.choice(TEXT_BASES)
            cur[i] = v
            ops.append(['S', i, _tok(v)])
        else:
            ops.append(['E', rng.randrange(len(nodes))])
    tail = list(range(len(nodes)))
    rng.shuffle(tail)
    return nodes, ops + [['E', a] for a in tail]


# three fixed small workbooks for the exhaustive core
def _fixed():
    n_ = lambda v: _tok(v)   # noqa
    w1 = [['I', 'Sheet1!A1', n_(5)], ['F', 'Sheet1!B1', 'add', [0, 0]], ['F', 'Sheet1!C1', 'cat', [1]],
          ['F', 'Sheet1!D1', 'cat', [0, 2]]]
    w2 = [['I', 'Sheet1!A1', n_(0)], ['I', 'Sheet1!A2', n_(None)], ['R', 'Sheet1!A1:A2', 2, 1, [0, 1]],
          ['F', 'Sheet1!B1', 'sum', [2]], ['F', 'Sheet1!B2', 'cat', [0, 3]]]
    w3 = [['I', 'Sheet1!A1', n_(1)], ['F', 'Sheet1!A2', 'ref', [0]], ['R', 'Sheet1!A1:A2', 2, 1, [0, 1]],
          ['F', 'Sheet1!B1', 'idx', [2, 2, 1]], ['F', 'Sheet1!B2', 'cnt', [2, 0]]]
    w4 = [['I', 'Sheet1!A1', n_(1)], ['I', 'Sheet1!A2', n_(2)], ['R', 'Sheet1!A1:A2', 2, 1, [0, 1]],
          ['F', 'Sheet1!B1', 'sum', [2]], ['F', 'Sheet1!B2', 'add', [0, 0]]]
    w5 = [['I', 'Sheet1!A1', n_(1)], ['F', 'Sheet1!B1', 'add', [0, 0]], ['F', 'Sheet1!C1', 'cat', [1]],
          ['F', 'Sheet1!E1', 'bad', [[], 1]], ['F', 'Sheet1!D1', 'bad', [[1, 3], 1]]]
    return [w1, w2, w3, w4, w5]


def _alphabet(w, k):
    if k == 4:      # w5: evaluates that fail at graph-build time (two unbuildable cells, one healthy sibling queued)
        return [['E', 0], ['E', 1], ['E', 2], ['E', 3], ['E', 4], ['S', 0, _tok(7)], ['S', 0, _tok(None)]]
    if k == 3:      # w4: multi-cell writes over a built / not yet built range, a formula reading a member directly
        return [['E', 3], ['E', 4], ['E', 2], ['SR', 'Sheet1!A1:A2', [0, 1], [_tok(5), _tok(6)], 0],
                ['SR', ['Sheet1!A2', 'Sheet1!A1'], [1, 0], [_tok(2), _tok(1)], 0], ['S', 0, _tok(7)], ['EL', [4, 3]]]
    inputs = [i for i, n in enumerate(w) if n[0] == 'I']
    evals = [['E', i] for i, n in enumerate(w) if n[0] != 'I' or len(inputs) == 1][:4]
    writes = [None, False, 7] if len(inputs) == 1 else [None, True]
    return (evals + [['S', i, _tok(v)] for i in inputs for v in writes])[:7]


def _writes_are_safe(nodes, ops):
    """every write goes to a cell that a successful evaluate has already put into the cell map"""
    clo = _precedents(nodes)
    built = set()
    for op in ops:
        if op[0] == 'E' and not is_bad(nodes, op[1]):
            built |= {op[1]} | clo[op[1]]
        elif op[0] == 'S' and op[1] not in built:
            return False
    return True


def exhaustive_cases(maxlen):
    for k, w in enumerate(_fixed()):
        alphabet = _alphabet(w, k)
        tail = [['E', i] for i in range(len(w))]
        for cfg in ('nodata', 'xlsx'):
            for ln in range(1, maxlen + 1):
                for h in itertools.product(alphabet, repeat=ln):
                    ops = [list(o) for o in h]
                    if ln == maxlen:
                        ops = ops + tail
                    if k == 4 and not _writes_are_safe(w, ops):
                        continue
                    yield {'cfg': cfg, 'nodes': w, 'ops': ops, 'exh': 1}


def cases(tier, rng):
    thorough = tier == 'thorough'
    yield from exhaustive_cases(4 if thorough else 3)
    for k in range(3000 if thorough else 300):
        nodes, ops = gen_near(rng)
        yield {'cfg': ('nodata', 'xlsx', 'nodata', 'yml')[k % 4] if k % 8 else 'pkl', 'nodes': nodes, 'ops': ops,
               'near': 1}
    for k in range(2500 if thorough else 250):
        nodes = add_unbuildable(rng, gen_workbook(rng))
        yield {'cfg': ('nodata', 'xlsx')[k % 2], 'nodes': nodes, 'ops': gen_history(rng, nodes, False, strict=True),
               'fail': 1}
    for k in range(2500 if thorough else 250):
        nodes, ops = gen_textnear(rng)
        yield {'cfg': ('nodata', 'xlsx', 'yml', 'nodata', 'json', 'xlsx', 'pkl')[k % 7], 'nodes': nodes, 'ops': ops,
               'text': 1}
    n = 4000 if thorough else 350
    cfgs = ['nodata', 'xlsx', 'nodata', 'xlsx', 'yml', 'json', 'pkl']
    for k in range(n):
        cfg = cfgs[k % len(cfgs)]
        loaded = cfg in ('yml', 'json', 'pkl')
        nodes = gen_workbook(rng, free_ranges=not loaded)
        names = {}
        if rng.random() < 0.3:
            pool = ['name_a', 'rate_b', 'total_c']
            used = sorted({j for n in nodes if n[0] == 'F' and n[2] != 'isum'
                           for j in (n[3][:1] if n[2] == 'idx' else n[3])})
            # (a defined name whose destination sheet has an apostrophe is not resolved: openpyxl hands out the
            #  sheet as O''Brien, pycel drops the name, the formula gives #NAME? — C04/C11's subject, kept out here)
            used = [j for j in used if "''" not in nodes[j][1]]
            for j in rng.sample(used, min(len(used), rng.randint(1, 3))):
                names[pool[len(names)]] = j
        for _ in range(2 if thorough else 1):
            c = {'cfg': cfg, 'nodes': nodes, 'ops': gen_history(rng, nodes, loaded)}
            if names:
                c['names'] = names
            yield c

"""C01 — lazy cache coherence (excelcompiler.py set_value/_reset/_evaluate/_gen_graph).  DESIGN.md §7 C01.

A case is one workbook (nodes in topological order) + one configuration + one whole history:

    {'cfg': 'nodata' | 'xlsx' | 'yml' | 'json' | 'pkl',
     'nodes': [['I', addr, valtok] | ['F', addr, kind, args] | ['R', range_addr, rows, cols, [member nodes]]],
     'ops': [['S', node, valtok] | ['E', node]]}

`impl` drives the REAL ExcelCompiler (in-memory workbook / .xlsx with stored results written by xlsxwriter_min /
to_file + from_file) and returns one token per operation; `model_lines` sends the same workbook and history to the Lean
driver (engine model with the repaired equality test).  `oracles` restates the property on the implementation alone:
every value returned by `evaluate` must equal the value a from-scratch ExcelCompiler of the same workbook with the
current inputs returns for the same address.
"""
import atexit
import itertools
import json
import os
import shutil
import tempfile

from harness import core, pyc
from harness import xlsxwriter_min as xw

ID = 'C01'
LEAN_MODULE = 'Pycel.Props.C01'
NS = 'Pycel.Engine.'
THEOREMS = [NS + t for t in (
    'C01_coherence', 'C01_outputs', 'C01_inputs_current', 'C01_evaluate_keeps_inputs', 'C01_built_after_evaluate',
    'C01_reset_spec', 'C01_setValue_inv', 'C01_evaluate_inv',
    'C01_init_nodata_inv', 'C01_init_stored_inv', 'C01_init_loaded_inv', 'C01_nodata', 'C01_stored', 'C01_loaded',
    'C01_stored_by_evaluation', 'C01_eqv_sound_needed', 'pyEq_not_sound', 'typedEq_sound', 'C01_pyEq_counterexample',
    'C01_blank_write_counterexample', 'C01_stale_stored_counterexample',
    'C01_coherence_inst', 'C01_inputs_current_inst')]
DESIGN_REF = 'DESIGN.md §7 C01'
RULE = ('random DAG workbooks (2-14 cells on one or two sheets, blank cells, range nodes incl. 2-D and ranges over '
        'formula cells that read other ranges, cross-sheet references, defined names for cells and ranges; formulas =ref, a&"|"&b…, a+b, SUM, COUNT, INDEX) x '
        'histories of 1-25 set_value/evaluate operations followed by an evaluate of every node, written scalars from '
        '{ints, text, "", TRUE/FALSE, None} biased to the 0/FALSE/None/"" and 1/TRUE collisions, 4% writes to cells not '
        'yet in the cell map; configurations in-memory / .xlsx with stored results / yml / json / pkl round trip. '
        'Deterministic core (seed independent): every history of length <= 3 (quick) / 4 (thorough) over a 7-letter '
        'alphabet on three fixed 4-5 node workbooks, in-memory and .xlsx. A case is non-trivial when an evaluate of a '
        'formula or range node follows an effective set_value of one of its (transitive) precedents.')
ASSUMPTIONS = [
    'non-iterative mode; set_value only on value cells (writing over a formula cell or with set_as_range is outside C01)',
    'formula language of the correspondence: =ref, &, +, SUM, COUNT, INDEX over cells and ranges; integers, non-numeric '
    'text, logicals, blank (no numeric-looking text, no non-integral numbers, no error constants as inputs)',
    'CSE array formulas and computed references (OFFSET/INDIRECT) are not generated',
    'the stored results of the .xlsx configuration are consistent with its formulas (written from a fresh evaluation)',
    'deserialised configurations: every cell is evaluated before to_file, so the saved model is the whole workbook',
]
TRUSTED = ['modelled, not verified: openpyxl load/tokenizer, networkx, ruamel.yaml/json/pickle codecs, the concrete '
           'formula evaluator of pycel (compared only on the generated language)']
REQUIRED_BUCKETS = ['nodata', 'xlsx', 'yml', 'json', 'pkl', 'nodata:exh', 'xlsx:exh']
EXHAUSTIVE = False
EXPLANATION = ('theorems: generic engine, all workbooks/histories/value types; correspondence: real ExcelCompiler vs '
               'compiled model per operation, plus implementation-only oracle against a from-scratch compile')

TMP = tempfile.mkdtemp(prefix='c01-')
atexit.register(shutil.rmtree, TMP, ignore_errors=True)
_FRESH = {}
_FRESH_MEMO = {}
_XLSX = {}


# ---------------------------------------------------------------------------------------------------------------
# workbook description -> Excel cells

def _py(tok):
    v = core.dec(tok)
    from fractions import Fraction
    if isinstance(v, Fraction):
        return int(v) if v.denominator == 1 else float(v)
    return v


def _abs(addr):
    """Sheet1!A1:B2 -> Sheet1!$A$1:$B$2 (destination text of a defined name)"""
    import re
    sheet, _, coord = addr.rpartition('!')
    return sheet + '!' + re.sub(r'([A-Z]+)(\d+)', r'$\1$\2', coord)


def names_of(case_or_names, nodes):
    names = case_or_names or {}
    return {k: _abs(nodes[j][1]) for k, j in names.items()}


def _addr_of(nodes, j, sheet, i=0, names=None):
    """address of node j as written in the formula of cell node i on `sheet` (a defined name when j has one and
    (i + j) % 3 != 2; same-sheet references without the sheet for odd j: every spelling is exercised)"""
    if names:
        for k, t in names.items():
            if t == j and (i + j) % 3 != 2:
                return k
    a = nodes[j][1]
    s, _, coord = a.partition('!')
    if s == sheet and j % 2 == 1:
        return coord
    return a


def formula_of(nodes, i, names=None):
    n = nodes[i]
    sheet = n[1].partition('!')[0]
    kind, args = n[2], n[3]
    ref = lambda j: _addr_of(nodes, j, sheet, i, names)   # noqa
    if kind == 'ref':
        return '=' + ref(args[0])
    if kind == 'cat':
        return '=' + '&"|"&'.join(ref(j) for j in args) + '&"|"'
    if kind == 'add':
        return f'={ref(args[0])}+{ref(args[1])}'
    if kind == 'sum':
        return '=SUM(' + ','.join(ref(j) for j in args) + ')'
    if kind == 'cnt':
        return '=COUNT(' + ','.join(ref(j) for j in args) + ')'
    if kind == 'idx':
        return f'=INDEX({ref(args[0])},{args[1]},{args[2]})'
    raise ValueError(kind)


def cells_of(nodes, inputs=None, names=None):
    """{'Sheet!A1': value | '=formula'}; `inputs` overrides the value of input nodes {node: python value}"""
    cells = {}
    for i, n in enumerate(nodes):
        if n[0] == 'I':
            cells[n[1]] = inputs[i] if inputs and i in inputs else _py(n[2])
        elif n[0] == 'F':
            cells[n[1]] = formula_of(nodes, i, names)
    return cells


def enc_result(nodes, i, v):
    n = nodes[i]
    if n[0] != 'R':
        return core.enc(v)
    rows, cols = n[2], n[3]
    if not isinstance(v, tuple):
        return '!not-a-tuple:' + core.enc(v)
    if rows > 1 and cols > 1:
        flat = [x for r in v for x in r]
    else:
        flat = list(v)
    if len(flat) != rows * cols:
        return f'!shape:{len(flat)}'
    return ' '.join([f'a:{rows}:{cols}'] + [core.enc(x) for x in flat])


# ---------------------------------------------------------------------------------------------------------------
# implementation side

def build_compiler(cells, names=None):
    """pyc.compiler_from + defined names {'name': "Sheet1!$A$1"} (in-memory openpyxl workbook, no stored results)"""
    if not names:
        return pyc.compiler_from(cells)
    import openpyxl
    from openpyxl.workbook.defined_name import DefinedName
    from pycel import ExcelCompiler
    from pycel.excelutil import AddressCell
    wb = openpyxl.Workbook()
    sheets = {}
    for addr, v in cells.items():
        a = AddressCell(addr)
        if a.sheet not in sheets:
            if not sheets:
                ws = wb.active
                ws.title = a.sheet
            else:
                ws = wb.create_sheet(a.sheet)
            sheets[a.sheet] = ws
        sheets[a.sheet][a.coordinate] = v
    for k, dest in names.items():
        wb.defined_names[k] = DefinedName(k, attr_text=dest)
    return ExcelCompiler(excel=wb)


def _compiler(case, key):
    from pycel import ExcelCompiler
    nodes, cfg = case['nodes'], case['cfg']
    cells = cells_of(nodes, names=case.get('names'))
    dn = names_of(case.get('names'), nodes)
    if cfg == 'nodata':
        return build_compiler(cells, dn)
    base = os.path.join(TMP, f'wb{os.getpid()}')
    if cfg == 'xlsx':
        if case.get('exh'):              # the fixed workbooks of the exhaustive core are written once
            k = json.dumps(nodes)
            if k not in _XLSX:
                _XLSX[k] = xw.write_xlsx(f'{base}-fixed{len(_XLSX)}.xlsx', cells, xw.stored_results(cells))
            return ExcelCompiler(filename=_XLSX[k])
        path = base + '.xlsx'
        xw.write_xlsx(path, cells, xw.stored_results(cells, build_compiler(cells, dn)), dn)
        return ExcelCompiler(filename=path)
    comp = build_compiler(cells, dn)
    for n in nodes:                      # the saved model = everything evaluated once
        if n[0] != 'R':
            comp.evaluate(n[1])
    path = f'{base}.{cfg}'
    for p in (path, base + '.yml'):
        if os.path.exists(p):
            os.unlink(p)
    comp.to_file(path)
    return ExcelCompiler.from_file(path)


def fresh_value(nodes, inputs, i, names=None):
    """value of node i in a from-scratch in-memory compile with the current inputs"""
    k = (json.dumps(nodes), json.dumps(names, sort_keys=True), tuple(sorted((a, repr(b)) for a, b in inputs.items())), i)
    if k not in _FRESH_MEMO:
        if len(_FRESH_MEMO) > 200000:
            _FRESH_MEMO.clear()
        try:
            comp = build_compiler(cells_of(nodes, inputs, names), names_of(names, nodes))
            _FRESH_MEMO[k] = enc_result(nodes, i, comp.evaluate(nodes[i][1]))
        except Exception as exc:   # noqa
            _FRESH_MEMO[k] = core.canon_exc(exc)
    return _FRESH_MEMO[k]


def impl(case):
    nodes = case['nodes']
    key = json.dumps(case, sort_keys=True)
    comp = _compiler(case, key)
    inputs = {}
    out, fresh = [], []
    for op in case['ops']:
        if op[0] == 'S':
            v = _py(op[2])
            try:
                comp.set_value(nodes[op[1]][1], v)
                inputs[op[1]] = v
                out.append('ok')
            except AssertionError:
                out.append('rej')
            except Exception as exc:   # noqa
                out.append(core.canon_exc(exc))
            fresh.append(None)
        else:
            try:
                out.append(enc_result(nodes, op[1], comp.evaluate(nodes[op[1]][1])))
            except Exception as exc:   # noqa
                out.append(core.canon_exc(exc))
            fresh.append(fresh_value(nodes, inputs, op[1], case.get('names')))
    _FRESH[key] = fresh
    return ';'.join(out)


# ---------------------------------------------------------------------------------------------------------------
# model side

def model_lines(case):
    nodes = case['nodes']
    cfg = {'nodata': 'nodata', 'xlsx': 'stored'}.get(case['cfg'], 'loaded')
    toks = ['c01', cfg, str(len(nodes))]
    for n in nodes:
        if n[0] == 'I':
            toks += ['I', n[2]]
        elif n[0] == 'F':
            kind, args = n[2], n[3]
            if kind in ('cat', 'sum', 'cnt'):
                toks += ['F', kind, str(len(args))] + [str(j) for j in args]
            else:
                toks += ['F', kind] + [str(j) for j in args]
        else:
            toks += ['R', str(n[2]), str(n[3])] + [str(j) for j in n[4]]
    for op in case['ops']:
        toks += ['S', str(op[1]), op[2]] if op[0] == 'S' else ['E', str(op[1])]
    return [' '.join(toks)]


def governed(case):
    return True      # the property fixes the value of every evaluate; set_value acceptance is part of "current inputs"


def oracles(results):
    for r in results:
        key = json.dumps(r.case, sort_keys=True)
        fresh = _FRESH.get(key)
        if fresh is None:
            continue
        outs = r.impl.split(';')
        if len(outs) != len(fresh):
            yield r.case, f'history aborted: {r.impl[:120]}'
            continue
        for k, (o, f) in enumerate(zip(outs, fresh)):
            if f is not None and o != f:
                op = r.case['ops'][k]
                yield r.case, (f'op #{k} evaluate({r.case["nodes"][op[1]][1]}) = {core.show(o)} but a from-scratch '
                               f'compile with the current inputs gives {core.show(f)}')
                break
            if o.startswith('!'):
                yield r.case, f'op #{k} raised/returned a non-Excel value: {o}'
                break


# ---------------------------------------------------------------------------------------------------------------
# classification of the known defect classes (narrow: by the first operation whose outputs differ)

def _first_diff(case, impl_out, ref_out):
    a, b = (impl_out or '').split(';'), (ref_out or '').split(';')
    for k, (x, y) in enumerate(zip(a, b)):
        if x != y:
            return k
    return None


def finding_key(case, impl_out, model_out):
    """xlsx.stored.emptytext: .xlsx with stored results in which some formula's stored result is the empty string
    (openpyxl reads `<v></v>` as None, so that cell looks uncomputed while its dependants carry stored results; the
    reset walk stops at it).  Matches only when the first wrong value is an evaluate of a node that (transitively)
    reads such a formula cell."""
    if case['cfg'] != 'xlsx':
        return None
    nodes, names = case['nodes'], case.get('names')
    empties = {i for i, n in enumerate(nodes) if n[0] == 'F' and fresh_value(nodes, {}, i, names) == 's:'}
    if not empties:
        return None
    ref = model_out
    if ref is None:
        fresh = _FRESH.get(json.dumps(case, sort_keys=True)) or []
        ref = ';'.join(f if f is not None else o for o, f in zip((impl_out or '').split(';'), fresh))
    k = _first_diff(case, impl_out, ref)
    if k is None or case['ops'][k][0] != 'E':
        return None
    if _precedents(nodes)[case['ops'][k][1]] & empties:
        return 'xlsx.stored.emptytext'
    return None


# ---------------------------------------------------------------------------------------------------------------
# coverage

def _precedents(nodes):
    deps = []
    for n in nodes:
        if n[0] == 'I':
            deps.append(set())
        elif n[0] == 'F':
            deps.append(set(n[3][:1]) if n[2] == 'idx' else set(n[3]))
        else:
            deps.append(set(n[4]))
    clo = []
    for i, d in enumerate(deps):
        c = set(d)
        for j in d:
            c |= clo[j]
        clo.append(c)
    return clo


def nontrivial(case):
    nodes = case['nodes']
    clo = _precedents(nodes)
    cur = {i: n[2] for i, n in enumerate(nodes) if n[0] == 'I'}
    changed = set()
    for op in case['ops']:
        if op[0] == 'S' and nodes[op[1]][0] == 'I' and cur.get(op[1]) != op[2]:
            cur[op[1]] = op[2]
            changed.add(op[1])
        elif op[0] == 'E' and clo[op[1]] & changed:
            return True
    return False


def bucket(case):
    return case['cfg'] + (':exh' if case.get('exh') else '')


# ---------------------------------------------------------------------------------------------------------------
# generators

INTS = [0, 1, -1, 2, 5, 10, -3, 7]
TEXTS = ['a', 'b', '', 'x y', 'Zz']


def _tok(v):
    return core.enc_text(v) if isinstance(v, str) else core.enc(v)


def rand_value(rng):
    r = rng.random()
    if r < 0.18:
        return None
    if r < 0.30:
        return rng.choice([True, False])
    if r < 0.50:
        return rng.choice([0, 1])
    if r < 0.75:
        return rng.choice(INTS)
    if r < 0.82:
        return ''
    return rng.choice(TEXTS)


def colname(c):
    return 'ABCDEFG'[c - 1]


def gen_workbook(rng, free_ranges=True):
    """-> nodes (topological).  Cells of Sheet1 row-major with the cells of an optional Sheet2 interleaved."""
    ncols, nrows = rng.randint(1, 3), rng.randint(2, 4)
    order = [('Sheet1', c, r) for r in range(1, nrows + 1) for c in range(1, ncols + 1)]
    grids = {'Sheet1': (ncols, nrows)}
    if rng.random() < 0.35:
        k = rng.randint(1, 3)
        grids['Data 2'] = (1, k)
        for r in range(1, k + 1):
            order.insert(rng.randint(r - 1 if r > 1 else 0, len(order)), ('Data 2', 1, r))
        # keep Sheet2 rows in increasing order
        pos = [i for i, o in enumerate(order) if o[0] == 'Data 2']
        for p, r in zip(pos, range(1, k + 1)):
            order[p] = ('Data 2', 1, r)
    nodes, index, rng_index = [], {}, {}
    placed = set()

    def sheet_q(s):
        return f"'{s}'" if ' ' in s else s

    def rects():
        out = []
        for s, (nc, nr) in grids.items():
            for c1 in range(1, nc + 1):
                for c2 in range(c1, nc + 1):
                    for r1 in range(1, nr + 1):
                        for r2 in range(r1, nr + 1):
                            size = (c2 - c1 + 1) * (r2 - r1 + 1)
                            if 2 <= size <= 6 and all((s, c, r) in placed for c in range(c1, c2 + 1)
                                                      for r in range(r1, r2 + 1)):
                                out.append((s, c1, r1, c2, r2))
        return out

    def range_node(rect):
        if rect not in rng_index:
            s, c1, r1, c2, r2 = rect
            members = [index[(s, c, r)] for r in range(r1, r2 + 1) for c in range(c1, c2 + 1)]
            nodes.append(['R', f'{sheet_q(s)}!{colname(c1)}{r1}:{colname(c2)}{r2}', r2 - r1 + 1, c2 - c1 + 1, members])
            rng_index[rect] = len(nodes) - 1
        return rng_index[rect]

    p_formula = rng.choice([0.35, 0.5, 0.65])
    for pos in order:
        s, c, r = pos
        addr = f'{sheet_q(s)}!{colname(c)}{r}'
        cellnodes = [i for i, n in enumerate(nodes) if n[0] != 'R']
        if cellnodes and rng.random() < p_formula:
            rs = rects()
            kind = rng.choice(['ref', 'cat', 'cat', 'add', 'sum', 'sum', 'cnt', 'idx'])
            if kind in ('idx',) and not rs:
                kind = 'cat'
            if kind == 'ref':
                args = [rng.choice(cellnodes)]
            elif kind == 'cat':
                args = [rng.choice(cellnodes) for _ in range(rng.randint(1, 3))]
            elif kind == 'add':
                args = [rng.choice(cellnodes), rng.choice(cellnodes)]
            elif kind in ('sum', 'cnt'):
                args = []
                for _ in range(rng.randint(1, 3)):
                    if rs and rng.random() < 0.7:
                        args.append(range_node(rng.choice(rs)))
                    else:
                        args.append(rng.choice(cellnodes))
            else:
                rect = rng.choice(rs)
                rn = range_node(rect)
                args = [rn, rng.randint(1, nodes[rn][2]), rng.randint(1, nodes[rn][3])]
            nodes.append(['F', addr, kind, args])
        else:
            nodes.append(['I', addr, _tok(rand_value(rng))])
        index[pos] = len(nodes) - 1
        placed.add(pos)
    if free_ranges:
        rs = [x for x in rects() if x not in rng_index]
        rng.shuffle(rs)
        for rect in rs[:rng.randint(0, 2)]:
            range_node(rect)
    return nodes


def gen_history(rng, nodes, built_all):
    inputs = [i for i, n in enumerate(nodes) if n[0] == 'I']
    built = set(range(len(nodes))) if built_all else set()
    clo = _precedents(nodes)
    ops = []
    for _ in range(rng.randint(1, 25)):
        if inputs and rng.random() < 0.5:
            cand = [i for i in inputs if i in built]
            if not cand or rng.random() < 0.04:
                cand = inputs
            i = rng.choice(cand)
            ops.append(['S', i, _tok(rand_value(rng))])
        else:
            a = rng.randrange(len(nodes))
            ops.append(['E', a])
            built |= {a} | clo[a]
    tail = list(range(len(nodes)))
    rng.shuffle(tail)
    ops += [['E', a] for a in tail]
    return ops


# three fixed small workbooks for the exhaustive core
def _fixed():
    n_ = lambda v: _tok(v)   # noqa
    w1 = [['I', 'Sheet1!A1', n_(5)], ['F', 'Sheet1!B1', 'add', [0, 0]], ['F', 'Sheet1!C1', 'cat', [1]],
          ['F', 'Sheet1!D1', 'cat', [0, 2]]]
    w2 = [['I', 'Sheet1!A1', n_(0)], ['I', 'Sheet1!A2', n_(None)], ['R', 'Sheet1!A1:A2', 2, 1, [0, 1]],
          ['F', 'Sheet1!B1', 'sum', [2]], ['F', 'Sheet1!B2', 'cat', [0, 3]]]
    w3 = [['I', 'Sheet1!A1', n_(1)], ['F', 'Sheet1!A2', 'ref', [0]], ['R', 'Sheet1!A1:A2', 2, 1, [0, 1]],
          ['F', 'Sheet1!B1', 'idx', [2, 2, 1]], ['F', 'Sheet1!B2', 'cnt', [2, 0]]]
    return [w1, w2, w3]


def exhaustive_cases(maxlen):
    for w in _fixed():
        inputs = [i for i, n in enumerate(w) if n[0] == 'I']
        evals = [['E', i] for i, n in enumerate(w) if n[0] != 'I' or len(inputs) == 1][:4]
        writes = [None, False, 7] if len(inputs) == 1 else [None, True]
        alphabet = evals + [['S', i, _tok(v)] for i in inputs for v in writes]
        alphabet = alphabet[:7]
        tail = [['E', i] for i in range(len(w))]
        for cfg in ('nodata', 'xlsx'):
            for ln in range(1, maxlen + 1):
                for h in itertools.product(alphabet, repeat=ln):
                    ops = [list(o) for o in h]
                    if ln == maxlen:
                        ops = ops + tail
                    yield {'cfg': cfg, 'nodes': w, 'ops': ops, 'exh': 1}


def cases(tier, rng):
    thorough = tier == 'thorough'
    yield from exhaustive_cases(4 if thorough else 3)
    n = 4000 if thorough else 400
    cfgs = ['nodata', 'xlsx', 'nodata', 'xlsx', 'yml', 'json', 'pkl']
    for k in range(n):
        cfg = cfgs[k % len(cfgs)]
        loaded = cfg in ('yml', 'json', 'pkl')
        nodes = gen_workbook(rng, free_ranges=not loaded)
        names = {}
        if rng.random() < 0.3:
            pool = ['name_a', 'rate_b', 'total_c']
            used = sorted({j for n in nodes if n[0] == 'F' for j in (n[3][:1] if n[2] == 'idx' else n[3])})
            for j in rng.sample(used, min(len(used), rng.randint(1, 3))):
                names[pool[len(names)]] = j
        for _ in range(2 if thorough else 1):
            c = {'cfg': cfg, 'nodes': nodes, 'ops': gen_history(rng, nodes, loaded)}
            if names:
                c['names'] = names
            yield c

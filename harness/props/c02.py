"""C02 — formula translation is meaning-preserving (excelformula.py).  DESIGN.md §7 C02.

Case kinds
  surf  a surface tree (explicit redundant parentheses) + a rendering style + an environment of cell values.  The
        harness renders it to a formula string; the implementation is observed at `Tokenizer(f).items`,
        `ExcelFormula(f).rpn`, `.ast`, `.python_code` (tokenised with Python's `tokenize`), CPython's `ast.parse` of
        that code, and the value through `build_eval_context`.  The driver gets only the tree.
  raw   an arbitrary formula string (pinned-test inputs, arrays, white space, malformed mutations); the driver gets the
        token stream of pycel's own Tokenizer and must reproduce rpn / tree / code (code-following, not governed).
  py    a Python token list of the fragment; CPython's parser against the model's `pyParse` (validates the one part of
        the model that describes Python rather than pycel).
"""
import ast
import io
import itertools
import re
import tokenize
import warnings

from harness import core, pyc

warnings.filterwarnings('ignore', category=SyntaxWarning)

ID = 'C02'
LEAN_MODULE = 'Pycel.Props.C02'
NS = 'Pycel.Formula.'
THEOREMS = [NS + t for t in (
    'C02_levels', 'C02_left_assoc', 'C02_table_is_spec', 'C02_parse', 'C02_amend', 'C02_parse_raw', 'C02_build', 'C02_parse_tree', 'C02_emit', 'C02_handlers',
    'emit_current_counterexample', 'C02_literal_text', 'C02_literal', 'literal_current_counterexample',
    'C02_number', 'number_current_counterexample', 'C02_literal_logical', 'C02_literal_error', 'evalPy_toPy', 'C02_sound', 'C02_sound_raw', 'C02_sound_ops')]
DESIGN_REF = 'DESIGN.md §7 C02'
RULE = ('surf cases come in two parts per rendered formula: "sem" (governed; only well-formed trees in scope): CPython\'s '
        'ast of python_code = meaning of the tree, and eval_formula(formula, cells) = the driver\'s value of the TREE under '
        'opsSem (C10\'s Ops.fixup with the Python kernels; exact compare, ~-marked C-pow / >2^53 results within 1e-9, '
        '? = function calls / pi: not decided); "code" (code-following): tokenizer items, rpn, ast, python tokens, '
        'pyParse = CPython. Trees: every tree of depth <= 2 over {neg, %, ^, *, +, &, <} x leaves {number, cell[, text]} '
        'with the cell value rotating over number/text/""/logical/blank/error, minimal and full parentheses; 19 '
        'precedence templates (=1&A1+B2, =-A1^B2, =A1=B2=C3, =2^-A1%, =A1-B2-C3, ...) over all ordered pairs / sampled '
        'triples of a 29-value mixed-type pool (signs, fractions, 0.1, numeric text incl. " 3 " "1e3" "-2", "", text, '
        '"inf", "1_0", blank, logicals, errors); random trees to depth 5 over all 12 operators, calls (0-3 args, missing '
        'args), all literal kinds incl. numeric-looking text, random redundant parentheses, white space, name case, '
        'environments drawn from the pool, a fraction with a needed parenthesis dropped (code part only); literal '
        'formulas over a hostile character pool incl. non-BMP; raw: pinned-test style strings, arrays, white space, '
        'random character mutations; a deterministic family of arithmetic at the kernel outcome boundaries (float pow overflow, complex results, zero divisors in every spelling, huge-but-finite integers) as literal/literal, literal/cell, cell/literal, cell/cell; py: random token lists of the Python fragment. Exponent subtrees are kept small. '
        'Non-trivial: at least one operator or call (surf/raw) or two tokens (py).')
ASSUMPTIONS = [
    'openpyxl\'s tokenizer (character level) is outside the model: the model starts from its token stream, and for '
    'generated surface trees the harness checks that the rendered string tokenises to the stream the model assumes',
    'CPython\'s parser is modelled by pyParse (fragment only) and cross-checked against ast.parse on every run',
    'operator run-time semantics are C10\'s model (lean/Pycel/Model/Ops.lean, instantiated in Model/Formula/OpsSem.lean '
    'and named by C02_sound_ops); function calls other than the cell read, the name pi, arithmetic on the TEXT '
    '"TRUE"/"FALSE" (C10 known finding text-logical-as-number) and non-finite floats are not decided (value `?`)',
    'results through C pow() or with an integer beyond 2^53 in play are compared with relative tolerance 1e-9 (`~`)',
    'function handlers needing the address layer (ROW, COLUMN, OFFSET, INDIRECT, SUBTOTAL) and reference operators '
    '(: space ,) are not generated in governed cases',
    'NUMBER tokens that are not plain decimal literals (openpyxl classifies by float(): inf, nan, Infinity, 1_0) are emitted '
    'verbatim and become Python NAMEs; the emitter model covers decimal literals only, such raw strings are compared '
    'on rpn and tree only',
    'a NUL character inside a text literal is not generated (CPython rejects NUL in source; XML cell text has none)',
]
TRUSTED = ['modelled, not verified: openpyxl tokenizer, CPython tokenizer/parser (cross-checked), networkx DiGraph']
REQUIRED_BUCKETS = ['surf:call-position', 'surf:wf', 'code:wf', 'code:nonwf', 'surf:neg-under-pow', 'surf:func', 'surf:literal-text',
                    'surf:literal-number', 'raw', 'raw:error', 'py', 'py:reject']
EXHAUSTIVE = False
EXPLANATION = ('Theorems (Props/C02.lean) hold for every surface expression / tree / character list: the live precedence '
               'table equals the statement\'s levels (C02_levels, C02_left_assoc, C02_table_is_spec); amend + shunting-yard '
               'invert the levelled grammar (C02_amend, C02_parse, C02_parse_raw), _build_ast inverts rpn (C02_build); the '
               'emitted Python token list parses under the model of Python\'s grammar to the tree (C02_emit), literals '
               'denote themselves (C02_literal*, C02_number); composition C02_sound(_raw) for every run-time semantics. '
               'The correspondence compares tokens, rpn, tree, python tokens, CPython ast and values of the real pycel with '
               'the driver; the oracle restates the property over implementation outputs only (ast = grammar tree, CPython '
               'ast of python_code = tree shape, code invariant under re-rendering, literal and arithmetic values).')

OPS = {'pow': ('^', 5), 'mul': ('*', 4), 'div': ('/', 4), 'add': ('+', 3), 'sub': ('-', 3), 'concat': ('&', 2),
       'eq': ('=', 1), 'lt': ('<', 1), 'gt': ('>', 1), 'le': ('<=', 1), 'ge': ('>=', 1), 'ne': ('<>', 1),
       'colon': (':', 8), 'space': (' ', 8), 'comma': (',', 8)}
SYM2OP = {v[0]: k for k, v in OPS.items()}
PYOPS = {'pow': '**', 'mul': '*', 'div': '/', 'add': '+', 'sub': '-', 'bitand': '&', 'eq': '==', 'ne': '!=',
         'lt': '<', 'gt': '>', 'le': '<=', 'ge': '>='}
PYSYM = {v: k for k, v in PYOPS.items()}
XL2PY = {'pow': 'pow', 'mul': 'mul', 'div': 'div', 'add': 'add', 'sub': 'sub', 'concat': 'bitand', 'eq': 'eq',
         'ne': 'ne', 'lt': 'lt', 'gt': 'gt', 'le': 'le', 'ge': 'ge'}
ATOM, NEGL, PCTL = 500, 7, 6
PLAIN_FUNCS = ['SUM', 'MAX', 'MIN', 'ABS', 'IF', 'AND', 'CONCATENATE', 'AVERAGE', 'ROUND', 'PI', 'TRUE', 'FALSE',
               'sum', 'Max', 'mIN', 'FLOOR.MATH', '_xlfn.CEILING.MATH', 'Sqrt', 'LEN', 'POWER', 'SIGN', 'MOD', 'OR',
               'NOT', 'N', 'Power', 'SUM', 'IF', 'ABS']
# sample calls (number-only arguments) put into every operand position of every operator
FUNC_SAMPLES = {'POWER': ['2', '3'], 'ABS': [['U', ['N', '2']]], 'SIGN': [['U', ['N', '3']]], 'MOD': ['7', '3'],
                'SUM': ['1', '2'], 'MAX': ['1', '2'], 'MIN': ['3', '2'], 'IF': ['1', '2', '3'], 'AND': ['1', '0'],
                'OR': ['0', '1'], 'NOT': ['0'], 'N': ['5'], 'ROUND': ['2.5', '0'], 'LEN': [['T', 'ab']], 'SQRT': ['4'],
                'INT': ['2.5'], 'AVERAGE': ['1', '3'], 'PI': [], 'TRUE': [], 'FALSE': [], 'CONCATENATE': ['1', '2'],
                'FLOOR.MATH': ['2.5'], 'EXP': ['1'], 'LOG': ['8', '2']}
CONTEXT_HANDLERS = {'row', 'column', 'offset', 'indirect', 'subtotal', 'array', 'arrayrow'}


def handler_names():
    """the function names with a dedicated emitter in the LIVE FunctionNode (a new one joins the generated trees)"""
    from pycel.excelformula import FunctionNode
    return sorted(n[5:] for n in dir(FunctionNode) if n.startswith('func_') and callable(getattr(FunctionNode, n)))


def sample_calls():
    names = dict(FUNC_SAMPLES)
    for h in handler_names():
        if h not in CONTEXT_HANDLERS and h.upper() not in names:
            names[h.upper()] = ['2', '3']
    for name, args in names.items():
        yield ['F', name, [a if isinstance(a, list) else ['N', a] for a in args]]


def call_positions(call):
    """the call in every operand position: left / right / both sides of every operator, under unary minus and %,
    as the base and the exponent of ^ together with a unary minus, with redundant parentheses, inside another call"""
    two = ['N', '2']
    for op in XL2PY:
        yield ['B', op, call, two]
        yield ['B', op, two, call]
        yield ['B', op, call, call]
    yield ['U', call]
    yield ['%', call]
    yield ['U', ['%', call]]
    yield ['B', 'pow', ['U', call], two]
    yield ['B', 'pow', two, ['U', call]]
    yield ['B', 'pow', ['B', 'pow', call, two], two]
    yield ['B', 'pow', ['%', call], two]
    yield ['B', 'mul', ['B', 'pow', call, two], call]
    yield ['F', 'SUM', [call, ['B', 'pow', call, two]]]

SPECIAL_FUNCS = {'row', 'column', 'offset', 'indirect', 'subtotal', 'array', 'arrayrow', 'map'}


def cps(s):
    return ','.join(str(ord(c)) for c in s)


# ---------------------------------------------------------------------------------------------------------------
# surface trees: JSON lists
#   ['N', text] ['T', denoted text] ['L', 0|1] ['E', tag] ['R', addr] ['Z']
#   ['P', x] ['U', x] ['%', x] ['B', op, l, r] ['F', name, [args]]

def quote(s):
    return '"' + s.replace('"', '""') + '"'


def lvl(t):
    k = t[0]
    if k == 'U':
        return NEGL
    if k == '%':
        return PCTL
    if k == 'B':
        return OPS[t[1]][1]
    return ATOM


def wf(t):
    k = t[0]
    if k == 'P':
        return wf(t[1])
    if k == 'U':
        return lvl(t[1]) >= NEGL and wf(t[1])
    if k == '%':
        return lvl(t[1]) >= PCTL and wf(t[1])
    if k == 'B':
        p = OPS[t[1]][1]
        return p < NEGL and lvl(t[2]) >= p and lvl(t[3]) > p and wf(t[2]) and wf(t[3])
    if k == 'F':
        return all(wf(a) for a in t[2])
    return True


def erase(t):
    k = t[0]
    if k == 'P':
        return erase(t[1])
    if k in 'U%':
        return [k, erase(t[1])]
    if k == 'B':
        return ['B', t[1], erase(t[2]), erase(t[3])]
    if k == 'F':
        return ['F', t[1], [erase(a) for a in t[2]]]
    return t


def minimal_parens(t, drop=None):
    """tree without parentheses -> surface tree with exactly the parentheses the levelled grammar needs.
    `drop` (a random.Random) omits a needed parenthesis now and then (result not well-formed)."""
    def par(x, need):
        x = minimal_parens(x, drop)
        if need and not (drop is not None and drop.random() < 0.5):
            return ['P', x]
        return x
    k = t[0]
    if k == 'U':
        return ['U', par(t[1], lvl(t[1]) < NEGL)]
    if k == '%':
        return ['%', par(t[1], lvl(t[1]) < PCTL)]
    if k == 'B':
        p = OPS[t[1]][1]
        return ['B', t[1], par(t[2], lvl(t[2]) < p), par(t[3], lvl(t[3]) <= p)]
    if k == 'F':
        return ['F', t[1], [minimal_parens(a, drop) for a in t[2]]]
    return t


def full_parens(t):
    k = t[0]
    if k in 'U%':
        return ['P', [k, full_parens(t[1])]]
    if k == 'B':
        return ['P', ['B', t[1], full_parens(t[2]), full_parens(t[3])]]
    if k == 'F':
        return ['F', t[1], [full_parens(a) for a in t[2]]]
    return t


def extra_parens(t, rng, p=0.15):
    k = t[0]
    if k == 'P':
        r = ['P', extra_parens(t[1], rng, p)]
    elif k in 'U%':
        r = [k, extra_parens(t[1], rng, p)]
    elif k == 'B':
        r = ['B', t[1], extra_parens(t[2], rng, p), extra_parens(t[3], rng, p)]
    elif k == 'F':
        r = ['F', t[1], [extra_parens(a, rng, p) for a in t[2]]]
    else:
        r = t
    if k != 'Z' and rng.random() < p:
        r = ['P', r]
    return r


def render(t, ws=None):
    """surface tree -> formula text (without '='); `ws` (random.Random) sprinkles white space where it is not an
    intersection operator"""
    def sp():
        return '' if ws is None or ws.random() < 0.7 else ' ' * ws.randint(1, 2)
    k = t[0]
    if k == 'N' or k == 'R':
        return t[1]
    if k == 'T':
        return quote(t[1])
    if k == 'L':
        return 'TRUE' if t[1] else 'FALSE'
    if k == 'E':
        return core.TAG_ERRS[t[1]]
    if k == 'Z':
        return ''
    if k == 'P':
        return '(' + sp() + render(t[1], ws) + sp() + ')'
    if k == 'U':
        return '-' + sp() + render(t[1], ws)
    if k == '%':
        return render(t[1], ws) + sp() + '%'
    if k == 'B':
        return render(t[2], ws) + sp() + OPS[t[1]][0] + sp() + render(t[3], ws)
    if k == 'F':
        return t[1] + '(' + (sp() + ',' + sp()).join(render(a, ws) for a in t[2]) + ')'
    raise ValueError(t)


def enc_operand(t):
    k = t[0]
    if k == 'N':
        return 'N' + cps(t[1])
    if k == 'T':
        return 'T' + cps(quote(t[1]))
    if k == 'L':
        return 'L1' if t[1] else 'L0'
    if k == 'E':
        return 'E' + t[1]
    if k == 'R':
        return 'R' + cps(t[1])
    if k == 'Z':
        return 'Z'
    raise ValueError(t)


def enc_surf(t):
    k = t[0]
    if k in 'PU%':
        return [k] + enc_surf(t[1])
    if k == 'B':
        return ['B' + t[1]] + enc_surf(t[2]) + enc_surf(t[3])
    if k == 'F':
        return [f'F{len(t[2])}:{cps(t[1])}'] + [x for a in t[2] for x in enc_surf(a)]
    return ['o:' + enc_operand(t)]


def py_func_name(name):
    from pycel.excelformula import FunctionNode
    f = name.lower()
    if f and f[0] == f[-1] == '_':
        f = f.upper()
    if f.startswith('_xlfn.'):
        f = f[6:]
    f = f.replace('.', '_')
    return f, FunctionNode.func_map.get(f, f)


def norm_number(t):
    if t.isdigit():
        return t.lstrip('0') or '0'
    return t


def py_shape(t):
    """the Python expression tree a formula tree means (written independently of the Lean `toPy`)"""
    k = t[0]
    if k == 'N':
        return ['d' + cps(norm_number(t[1]))]
    if k == 'T':
        return ['s' + cps(t[1])]
    if k == 'L':
        return ['n' + cps('True' if t[1] else 'False')]
    if k == 'E':
        return ['s' + cps(core.TAG_ERRS[t[1]])]
    if k == 'Z':
        return ['n' + cps('None')]
    if k == 'R':
        a = t[1].replace('$', '')
        return [f"c1:{cps('_R_' if ':' in a else '_C_')}", 's' + cps(a)]
    if k == 'U':
        return ['U'] + py_shape(t[1])
    if k == '%':
        return ['bdiv'] + py_shape(t[1]) + ['d' + cps('100')]
    if k == 'B':
        return ['b' + XL2PY[t[1]]] + py_shape(t[2]) + py_shape(t[3])
    if k == 'F':
        base, name = py_func_name(t[1])
        if base == 'pi':
            return ['n' + cps('pi')]
        if base in ('true', 'false'):
            return ['n' + cps(base.capitalize())]
        return [f'c{len(t[2])}:{cps(name)}'] + [x for a in t[2] for x in py_shape(a)]
    raise ValueError(t)


def in_scope(t):
    """the tree stays inside the grammar the property speaks about and the emitter model covers"""
    k = t[0]
    if k in 'PU%':
        return in_scope(t[1])
    if k == 'B':
        return t[1] in XL2PY and in_scope(t[2]) and in_scope(t[3])
    if k == 'F':
        base, _ = py_func_name(t[1])
        if base in SPECIAL_FUNCS:
            return False
        if len(t[2]) == 1 and t[2][0][0] == 'Z':
            return False
        return all(a[0] == 'Z' or in_scope(a) for a in t[2])
    if k == 'Z':
        return False
    if k == 'N':
        return re.fullmatch(r'(\d+\.?\d*|\.\d+)([eE][+-]?\d+)?', t[1]) is not None
    if k == 'R':
        return _canon_ref(t[1])
    if k == 'T':
        return '\0' not in t[1]
    return True


def has_neg_under_pow(t):
    k = t[0]
    if k == 'B' and t[1] == 'pow' and erase(t[2])[0] == 'U':
        return True
    if k in 'PU%':
        return has_neg_under_pow(t[1])
    if k == 'B':
        return has_neg_under_pow(t[2]) or has_neg_under_pow(t[3])
    if k == 'F':
        return any(has_neg_under_pow(a) for a in t[2])
    return False


def count_ops(t):
    k = t[0]
    if k == 'P':
        return count_ops(t[1])
    if k in 'U%':
        return 1 + count_ops(t[1])
    if k == 'B':
        return 1 + count_ops(t[2]) + count_ops(t[3])
    if k == 'F':
        return 1 + sum(count_ops(a) for a in t[2])
    return 0


# ---------------------------------------------------------------------------------------------------------------
# implementation observations

def dump_operand(tok):
    from pycel.excelformula import Token
    st, v = tok.subtype, tok.value
    if st == Token.NUMBER:
        return 'N' + cps(v)
    if st == Token.TEXT:
        return 'T' + cps(v)
    if st == Token.LOGICAL:
        if v in ('TRUE', 'FALSE'):
            return 'L1' if v == 'TRUE' else 'L0'
        raise Unsupported(f'logical {v!r}')
    if st == Token.ERROR:
        if v in core.ERR_TAGS:
            return 'E' + core.ERR_TAGS[v]
        raise Unsupported(f'error {v!r}')
    if st == Token.RANGE:
        return 'R' + cps(v)
    if st == Token.EMPTY:
        return 'Z'
    raise Unsupported(f'operand subtype {st!r}')


class Unsupported(Exception):
    pass


def dump_raw_token(tok):
    from pycel.excelformula import Token
    ty, st, v = tok.type, tok.subtype, tok.value
    if ty == Token.OPERAND:
        return 'o:' + dump_operand(tok)
    if ty == Token.FUNC:
        return 'f(' + cps(v[:-1]) if st == Token.OPEN else 'f)'
    if ty == Token.ARRAY:
        return '{' if st == Token.OPEN else '}'
    if ty == Token.SEP:
        return 'as' if st == Token.ARG else 'rs'
    if ty == Token.PAREN:
        return '(' if st == Token.OPEN else ')'
    if ty == Token.OP_PRE:
        if v == '-':
            return 'u'
        raise Unsupported(f'prefix {v!r}')
    if ty == Token.OP_IN:
        if st == Token.INTERSECT:
            if v == ' ':
                return 'ispace'
            raise Unsupported('multi-space intersection')
        if v in SYM2OP:
            return 'i' + SYM2OP[v]
        raise Unsupported(f'infix {v!r}')
    if ty == Token.OP_POST:
        return '%'
    if ty == Token.WSPACE:
        return 'w'
    raise Unsupported(f'token type {ty!r}')


def dump_node(n):
    from pycel.excelformula import FunctionNode, OperatorNode, Token
    if isinstance(n, FunctionNode):
        return f'f{n.num_args}:{cps(str(n))}'
    if isinstance(n, OperatorNode):
        tok = n.token
        if tok.type == Token.OP_PRE:
            return 'u'
        if tok.type == Token.OP_POST:
            return '%'
        if tok.subtype == Token.INTERSECT:
            return 'ispace'
        return 'i' + SYM2OP[tok.value]
    return 'o:' + dump_operand(n.token)


def dump_tree(n):
    from pycel.excelformula import FunctionNode, OperatorNode, Token
    kids = n.children
    if isinstance(n, FunctionNode):
        return [f'F{len(kids)}:{cps(str(n))}'] + [x for k in kids for x in dump_tree(k)]
    if isinstance(n, OperatorNode):
        tok = n.token
        if tok.type == Token.OP_PRE:
            return ['U'] + dump_tree(kids[0])
        if tok.type == Token.OP_POST:
            return ['%'] + dump_tree(kids[0])
        op = 'space' if tok.subtype == Token.INTERSECT else SYM2OP[tok.value]
        return ['B' + op] + dump_tree(kids[0]) + dump_tree(kids[1])
    return ['o:' + dump_operand(n.token)]


def dump_pytokens(code):
    """python source -> canonical token dump, or 'error' when it does not tokenise / uses tokens outside the model"""
    out = []
    try:
        for t in tokenize.generate_tokens(io.StringIO(code).readline):
            if t.type in (tokenize.NEWLINE, tokenize.NL, tokenize.ENDMARKER, tokenize.INDENT, tokenize.DEDENT):
                continue
            if t.type == tokenize.NAME:
                out.append('n' + cps(t.string))
            elif t.type == tokenize.NUMBER:
                out.append('d' + cps(t.string))
            elif t.type == tokenize.STRING:
                if not (t.string.startswith('"') and t.string.endswith('"') and len(t.string) >= 2):
                    return 'error'
                out.append('s' + cps(t.string[1:-1]))
            elif t.type == tokenize.OP:
                if t.string in '(),':
                    out.append(t.string)
                elif t.string in PYSYM:
                    out.append('o' + PYSYM[t.string])
                else:
                    return 'error'
            else:
                return 'error'
    except (tokenize.TokenError, SyntaxError, IndentationError):
        return 'error'
    return ' '.join(out)


def dump_pyast(code):
    """CPython's parse of an expression in the model's prefix dump; 'none' when rejected or outside the fragment"""
    try:
        with warnings.catch_warnings():
            warnings.simplefilter('ignore')
            node = ast.parse(code, mode='eval').body
    except (SyntaxError, ValueError, MemoryError, RecursionError):
        return 'none'
    bop = {ast.Pow: 'pow', ast.Mult: 'mul', ast.Div: 'div', ast.Add: 'add', ast.Sub: 'sub', ast.BitAnd: 'bitand'}
    cop = {ast.Eq: 'eq', ast.NotEq: 'ne', ast.Lt: 'lt', ast.Gt: 'gt', ast.LtE: 'le', ast.GtE: 'ge'}

    def go(n):
        if isinstance(n, ast.Name):
            return ['n' + cps(n.id)]
        if isinstance(n, ast.Constant):
            if n.value is True or n.value is False or n.value is None:
                return ['n' + cps(repr(n.value))]
            if isinstance(n.value, str):
                return ['s' + cps(n.value)]
            if isinstance(n.value, (int, float)):
                return ['d' + cps(ast.get_source_segment(code, n))]
            raise Unsupported
        if isinstance(n, ast.UnaryOp) and isinstance(n.op, ast.USub):
            return ['U'] + go(n.operand)
        if isinstance(n, ast.BinOp) and type(n.op) in bop:
            return ['b' + bop[type(n.op)]] + go(n.left) + go(n.right)
        if isinstance(n, ast.Compare) and len(n.ops) == 1 and type(n.ops[0]) in cop:
            return ['b' + cop[type(n.ops[0])]] + go(n.left) + go(n.comparators[0])
        if isinstance(n, ast.Call) and isinstance(n.func, ast.Name) and not n.keywords:
            return [f'c{len(n.args)}:{cps(n.func.id)}'] + [x for a in n.args for x in go(a)]
        if isinstance(n, ast.Call) and isinstance(n.func, ast.Constant) and not n.keywords and \
                (n.func.value is True or n.func.value is False or n.func.value is None):
            # `True(a)`: CPython parses a call on the keyword constant (SyntaxWarning only); the model's token
            # `name True` followed by `(` is the same call — keyword constants are dumped as names on both sides
            return [f'c{len(n.args)}:{cps(repr(n.func.value))}'] + [x for a in n.args for x in go(a)]
        if isinstance(n, ast.Tuple):
            return [f't{len(n.elts)}'] + [x for a in n.elts for x in go(a)]
        raise Unsupported
    try:
        return ' '.join(go(node))
    except Unsupported:
        return 'none'


def _py_cell(tok):
    from fractions import Fraction
    v = core.dec(tok)
    if isinstance(v, Fraction):
        return int(v) if v.denominator == 1 else float(v)
    return v


def observe(formula, env=None, want_tokens=True):
    """all observation points of one formula string -> dict of canonical fields"""
    from pycel.excelformula import ExcelFormula, Tokenizer
    out = {}
    if want_tokens:
        try:
            out['toks'] = ' '.join(dump_raw_token(t) for t in Tokenizer(formula).items)
        except Unsupported as exc:
            out['toks'] = f'unsupported:{exc}'
        except Exception as exc:   # noqa
            out['toks'] = core.canon_exc(exc)
    ef = ExcelFormula(formula)
    try:
        rpn = ef.rpn
        out['rpn'] = ' '.join(dump_node(n) for n in rpn)
    except Unsupported as exc:
        out['rpn'] = f'unsupported:{exc}'
        rpn = None
    except Exception:   # noqa
        out['rpn'] = 'none'
        rpn = None
    out['tree'] = out['py'] = out['pyast'] = 'none'
    if rpn:
        try:
            out['tree'] = ' '.join(dump_tree(ef.ast))
            code = ef.python_code
            out['code'] = code
            out['py'] = dump_pytokens(code)
            out['pyast'] = dump_pyast(code)
        except Unsupported as exc:
            out['tree'] = f'unsupported:{exc}'
        except Exception:   # noqa
            pass
    if env is not None:
        import signal

        def _alarm(*_):
            raise TimeoutError('evaluation exceeded 20 s')
        old = signal.signal(signal.SIGALRM, _alarm)
        signal.alarm(20)
        try:
            cells = {a: _py_cell(v) for a, v in env.items()}
            out['val'] = core.enc(pyc.eval_formula(formula, cells))
        except Exception as exc:   # noqa
            out['val'] = core.canon_exc(exc)
        finally:
            signal.alarm(0)
            signal.signal(signal.SIGALRM, old)
    return out


def formula_of(c):
    import random
    ws = random.Random(c['ws']) if c.get('ws') is not None else None
    return '=' + render(c['s'], ws)


_IMPL_CACHE = {}


def impl(c):
    key = repr({k: v for k, v in c.items() if k != 'part'})     # the 'sem' and 'code' parts share one observation
    if key not in _IMPL_CACHE:
        if len(_IMPL_CACHE) > 4:
            _IMPL_CACHE.clear()
        _IMPL_CACHE[key] = _impl(c)
    return _IMPL_CACHE[key]


def _impl(c):
    k = c['k']
    if k == 'surf':
        o = observe(formula_of(c), c.get('env'))
        canon = observe('=' + render(full_parens(erase(c['s']))), None, want_tokens=False)
        return ' ; '.join([o['toks'], o['rpn'], o['tree'], o['py'], o['pyast'], 'canon:' + canon['py']]) + \
            '|' + o.get('val', '-')
    if k == 'raw':
        o = observe(c['f'])
        if o['toks'].startswith(('unsupported', '!exc')) or o['rpn'].startswith('unsupported') or \
                o['tree'].startswith('unsupported'):
            return 'pong'
        return ' ; '.join([o['rpn'], o['tree'], o['py'], o['pyast']])
    if k == 'py':
        depth = 0
        for t in c['t']:
            depth += (t == '(') - (t == ')')
            if t == ',' and depth == 0:
                return 'none'      # bare top-level tuple: outside the fragment
        for t in c['t']:
            if t[0] == 's' and re.search(r'(?<!\\)(?:\\\\)*["\n\r]', uncps(t[1:])):
                return 'none'      # body is not one string literal: outside the fragment by definition
        return dump_pyast(py_source(c['t']))
    raise ValueError(k)


def py_source(toks):
    parts = []
    for t in toks:
        if t in '(),':
            parts.append(t)
        elif t[0] == 'o':
            parts.append(PYOPS[t[1:]])
        elif t[0] == 's':
            parts.append('"' + uncps(t[1:]) + '"')
        else:
            parts.append(uncps(t[1:]))
    return ' '.join(parts)


def uncps(s):
    return ''.join(chr(int(x)) for x in s.split(',')) if s else ''


def model_lines(c):
    k = c['k']
    if k == 'surf':
        s = enc_surf(c['s'])
        env = c.get('env') or {}
        surf = 'c02 surf ' + ' '.join(s)
        val = f'c02 val {len(env)} ' + ' '.join(f'{cps(a)}={v}' for a, v in env.items()) + \
            (' ' if env else '') + ' '.join(s)
        part = c.get('part', 'all')
        if part == 'code':
            return [surf]
        if part == 'sem':
            return [surf, val]
        return [surf, val, 'ping']
    if k == 'raw':
        from pycel.excelformula import Tokenizer
        try:
            toks = [dump_raw_token(t) for t in Tokenizer(c['f']).items]
        except Exception:   # noqa
            return ['ping']
        o = impl(c)
        if o == 'pong':
            return ['ping']
        return ['c02 raw ' + ' '.join(toks)]
    if k == 'py':
        return ['c02 py ' + ' '.join(c['t'])]
    raise ValueError(k)


def governed(c):
    # the property decides the MEANING of a well-formed formula (python_code read by Python's grammar, the value); how
    # the code is spelled (tokens, rpn, python tokens: part 'code') is the implementation's business
    if c['k'] == 'surf' and c.get('part', 'all') != 'code':
        return wf(c['s']) and in_scope(c['s'])
    return False


def value_diff(ival, mval):
    """None when the implementation's value agrees with the driver's (`?` = not decided by the model, `~` =
    approximate: numbers within 1e-9 relative, anything else derived from an approximate number is not compared)"""
    if mval == '?':
        return None
    if ival.startswith('!'):
        if mval.startswith('~n:'):
            # an exception where the model holds an approximate NUMBER: integers beyond the double range reaching
            # float conversion (=10^400+1 raises OverflowError on the pinned tree) — outside Ops' stated domain (C10)
            return None
        return f'value: implementation {ival} model {core.show(mval.lstrip("~"))}'
    if mval.startswith('~'):
        m = mval[1:]
        if m.startswith('n:') and ival.startswith('n:'):
            return None if core.num_close(ival, m, rel=1e-9) else \
                f'value: implementation {core.show(ival)} model ~{core.show(m)}'
        if m.startswith('n:') != ival.startswith('n:') and (m.startswith('n:') or ival.startswith('n:')):
            if m.startswith('e:') or ival.startswith('e:'):
                return None          # overflow / domain edge of an approximate number
            return f'value: implementation {core.show(ival)} model ~{core.show(m)}'
        return None
    return None if ival == mval else f'value: implementation {core.show(ival)} model {core.show(mval)}'


def same(impl_out, model_out):
    return explain(impl_out, model_out) is None


def explain(impl_out, model_out, case=None):
    """None when implementation and model agree, else a short text naming the first differing field"""
    if model_out is None:
        return 'no model output'
    if ' ; ' not in model_out:
        return None if impl_out == model_out else 'answers differ'
    parts = model_out.split('|')
    mf = [f.strip() for f in parts[0].split(' ; ')]
    if len(mf) == 8:          # surf
        part = {1: 'code', 2: 'sem', 3: 'all'}[len(parts)]
        mval = parts[1] if len(parts) > 1 else '?'
        isurf, _, ival = impl_out.partition('|')
        f = [x.strip() for x in isurf.split(' ; ')]
        if len(f) != 6:
            return 'implementation output malformed'
        wf_flag, mtoks, mrpn, mtree, mpy, mpp, mtopy, th = mf
        if part in ('sem', 'all') and wf_flag == 'wf:1':
            d = value_diff(ival, mval)
            if d:
                return d
            if f[4] != mtopy:
                return f'python ast {f[4]!r} is not the meaning of the tree {mtopy!r}'
            if th != 'th:1111':
                return f'model-internal agreement flags {th} on a well-formed tree'
        if part in ('code', 'all'):
            for name, a, b in (('tokens', f[0], mtoks), ('rpn', f[1], mrpn), ('tree', f[2], mtree),
                               ('python tokens', f[3], mpy), ('python ast', f[4], mpp)):
                if a != b:
                    return f'{name}: implementation {a!r} model {b!r}'
        return None
    if len(mf) == 4:          # raw
        f = [x.strip() for x in impl_out.split(' ; ')]
        if len(f) != 4:
            return 'implementation output malformed'
        skip_ast = any(x in mf[1] for x in ('Bcomma', 'Bcolon', 'Bspace')) or _has_keyword(mf[2])
        simple = _raw_simple(mf[1])      # the emitter of other references / names needs the address layer (C11)
        for name, a, b in zip(('rpn', 'tree', 'python tokens', 'python ast'), f, mf):
            if name.startswith('python') and not simple:
                continue
            if a != b and not (name == 'python ast' and skip_ast):
                return f'{name}: implementation {a!r} model {b!r}'
        return None
    return None if impl_out == model_out else 'answers differ'


_CANON_REF = re.compile(r'\$?[A-Z]{1,2}\$?[1-9]\d{0,3}(:\$?[A-Z]{1,2}\$?[1-9]\d{0,3})?')
_DEC_NUM = re.compile(r'(\d+\.?\d*|\.\d+)([eE][+-]?\d+)?')
_CANON_FN = re.compile(r'[A-Za-z_][A-Za-z0-9_.]*')


def _canon_ref(text):
    """a reference the address layer (C11) emits unchanged: A1 / A1:B2 with ordered, distinct corners"""
    if not _CANON_REF.fullmatch(text):
        return False
    if ':' in text:
        a, b = (re.fullmatch(r'([A-Z]+)(\d+)', x.replace('$', '')).groups() for x in text.split(':'))
        ca, cb = (len(a[0]), a[0]), (len(b[0]), b[0])
        if not (ca <= cb and int(a[1]) <= int(b[1])) or (ca == cb and a[1] == b[1]):
            return False
    return True


def _raw_simple(tree_dump):
    for t in tree_dump.split():
        if t.startswith('o:R') and not _canon_ref(uncps(t[3:])):
            return False
        if t.startswith('o:N') and not _DEC_NUM.fullmatch(uncps(t[3:])):
            return False     # openpyxl calls anything float() reads a NUMBER (inf, nan, Infinity): emitted verbatim,
            #                  Python's lexer then sees a NAME; the emitter model covers decimal literals only
        if t[0] == 'F' and ':' in t:
            name = uncps(t.split(':', 1)[1])
            if not _CANON_FN.fullmatch(name) or py_func_name(name)[0] in SPECIAL_FUNCS - {'array', 'arrayrow'}:
                return False
            if not py_func_name(name)[1].isidentifier():
                return False     # e.g. _xlfn.1X( -> `1x(`: not one Python NAME token
    return True


def _has_keyword(pytoks):
    import keyword
    for t in pytoks.split():
        if t[0] == 'n' and t[1:].replace(',', '').isdigit():
            nm = uncps(t[1:])
            if keyword.iskeyword(nm) and nm not in ('True', 'False', 'None'):
                return True
    return False


# ---------------------------------------------------------------------------------------------------------------
# oracles: the property over implementation outputs only

def ref_value(t, env):
    """plain float evaluation of a number-only tree without functions (None = not decided here)"""
    k = t[0]
    try:
        if k == 'N':
            return float(t[1])
        if k == 'R':
            v = env.get(t[1])
            if v is None or not v.startswith('n:'):
                return None
            return float(core.dec(v))
        if k == 'U':
            v = ref_value(t[1], env)
            return None if v is None else -v
        if k == '%':
            v = ref_value(t[1], env)
            return None if v is None else v / 100
        if k == 'B' and t[1] in ('pow', 'mul', 'div', 'add', 'sub'):
            a, b = ref_value(t[2], env), ref_value(t[3], env)
            if a is None or b is None:
                return None
            if t[1] == 'pow':
                if (a == 0 and b <= 0) or (a < 0 and b != int(b)) or abs(b) > 40 or abs(a) > 1e6:
                    return None
                return a ** b
            if t[1] == 'div':
                return None if b == 0 else a / b
            return {'mul': a * b, 'add': a + b, 'sub': a - b}[t[1]]
    except (OverflowError, ZeroDivisionError, ValueError):
        return None
    return None


def oracles(results):
    for r in results:
        c = r.case
        if c['k'] != 'surf' or not governed(c):
            continue
        isurf, _, ival = r.impl.partition('|')

        f = [x.strip() for x in isurf.split(' ; ')]
        if len(f) != 6:
            yield c, f'implementation failed on a well-formed formula: {r.impl[:120]}'
            continue
        tree = erase(c['s'])
        formula = formula_of(c)
        # the parse inverts the grammar
        want_tree = ' '.join(enc_surf(tree))
        if f[2] != want_tree:
            yield c, f'{formula}: ExcelFormula.ast is {f[2]!r}, the grammar says {want_tree!r}'
            continue
        # the emitted code means the tree under Python's grammar
        want_py = ' '.join(py_shape(tree))
        if f[4] != want_py:
            yield c, f'{formula}: python_code parses (CPython) to {f[4]!r}, the tree means {want_py!r}'
            continue
        # every rendering of the same tree compiles to the same code
        if 'canon:' + f[3] != f[5]:
            yield c, f'{formula}: code differs from the code of the fully parenthesised rendering'
        # literals denote themselves; number-only trees evaluate to the arithmetic value
        if tree[0] == 'T' and ival != core.enc_text(tree[1]) and not (tree[1] in core.ERR_TAGS):
            yield c, f'{formula}: text literal evaluates to {core.show(ival)}'
        if tree[0] == 'N':
            want = core.enc(float(tree[1]))
            if not core.num_close(ival, want, rel=1e-15):
                yield c, f'{formula}: number literal evaluates to {core.show(ival)}'
        rv = ref_value(tree, c.get('env') or {})
        if rv is not None and abs(rv) < 1e200:
            want = core.enc(float(rv))
            if not core.num_close(ival, want, rel=1e-9):
                yield c, f'{formula}: value {core.show(ival)}, arithmetic by the grammar gives {rv!r}'


def finding_key(c, impl_out, model_out):
    return None


def nontrivial(c):
    if c['k'] == 'surf':
        return count_ops(c['s']) >= 1
    if c['k'] == 'raw':
        return len(c['f']) > 3
    return len(c['t']) >= 2


def bucket(c):
    if c['k'] == 'surf' and c.get('part') == 'code':
        return 'code:wf' if wf(c['s']) and in_scope(c['s']) else 'code:nonwf'
    if c['k'] == 'surf':
        s = c['s']
        if not (wf(s) and in_scope(s)):
            return 'surf:nonwf'
        e = erase(s)
        if e[0] == 'T':
            return 'surf:literal-text'
        if e[0] == 'N':
            return 'surf:literal-number'
        if e[0] == 'B' and 'F' in (e[2][0], e[3][0]) or e[0] in 'U%' and erase(e[1])[0] in 'F%' and 'F' in \
                {x[0] for x in _walk(e)} and count_ops(e) <= 4:
            return 'surf:call-position'
        if has_neg_under_pow(s):
            return 'surf:neg-under-pow'
        if 'F' in {x[0] for x in _walk(s)}:
            return 'surf:func'
        return 'surf:wf'
    if c['k'] == 'raw':
        return 'raw:error' if c.get('bad') else 'raw'
    return 'py:reject' if c.get('bad') else 'py'


def _walk(t):
    yield t
    k = t[0]
    if k in 'PU%':
        yield from _walk(t[1])
    elif k == 'B':
        yield from _walk(t[2])
        yield from _walk(t[3])
    elif k == 'F':
        for a in t[2]:
            yield from _walk(a)


# ---------------------------------------------------------------------------------------------------------------
# generators

ENV0 = {'A1': 'n:3/1', 'B2': 'n:-2/1', 'C3': 'n:1/2'}
TEXT_POOL = ['', 'a', 'x y', 'a"b', '"', '""', 'a\\b', '\\', 'a\\', '\\\\', '\\n', 'a\nb', '\n', '\r\n', 'a\tb', '{}',
             '{0}', '{x!r}', '%s', "it's", "'", '\\"', '"\\', 'é', '日本', '#N/A', '_C_("A1")', '_R_', '\\x41', '\\u0041',
             '\\N{DASH}', '\\101', '\\\n', 'TRUE', '1', '-', '=', 'a,b', '(', ')', ' ', '\x0b', '\x7f', 'a""b', '\\t',
             '\\a', '\\q', '\\0', '😀', 'a𝄞b', '\U00020000']
NUM_POOL = ['0', '1', '2', '7', '10', '12', '100', '0.5', '1.5', '.5', '5.', '1E3', '1.5E+3', '2e-2', '1E+02', '007',
            '00', '010', '0.10', '00.5', '0E0', '3.14159', '1234567890', '09', '1e0']


# cell values of mixed type (after C10's pool): signs, fractions, numeric text, "", text, blank, logicals, errors.
# Magnitudes stay small (values are used as exponents); the TEXT "TRUE"/"FALSE" is left to C10 (known finding there).
VAL_POOL = ['n:0/1', 'n:1/1', 'n:-1/1', 'n:2/1', 'n:3/1', 'n:-8/1', 'n:10/1', 'n:1/2', 'n:-1/2', 'n:3/2', 'n:-5/2',
            'n:3602879701896397/36028797018963968', 's:51', 's:32,51,32', 's:49,46,53', 's:45,50', 's:49,101,51', 's:',
            's:97', 's:65', 's:97,98,99', 's:105,110,102', 's:49,95,48', 'z', 'b:1', 'b:0', 'e:na', 'e:div0', 'e:value']
SMALL_VALS = ['n:3/1', 'n:-2/1', 'n:1/2', 's:52', 's:120', 's:', 'b:1', 'z', 'e:na', 'n:0/1']


def random_env(rng):
    return {'A1': rng.choice(VAL_POOL), 'B2': rng.choice(VAL_POOL), 'C3': rng.choice(VAL_POOL)}


def exhaustive_trees(depth, leaves, unary, binary):
    level = [list(leaves)]
    for _ in range(depth):
        prev = [t for lv in level for t in lv]
        last = level[-1]
        new = []
        for u in unary:
            new.extend([u, x] for x in last)
        for b in binary:
            for l, r in itertools.product(prev, prev):
                if l in last or r in last:
                    new.append(['B', b, l, r])
        level.append(new)
    return [t for lv in level for t in lv]


def random_tree(rng, depth, leafs=None):
    def leaf():
        r = rng.random()
        if r < 0.40:
            return ['N', rng.choice(['0', '1', '2', '3', '4', '5', '10', '0.5', '2.5', '007', '1E2', '.5', '0.1'])]
        if r < 0.72:
            return ['R', rng.choice(['A1', 'B2', 'C3', '$A$1', 'B$2'])]
        if r < 0.80:
            return ['T', rng.choice(['3', ' 3 ', '1.5', '-2', '1e1', '', 'a', 'A', 'abc', '0', 'inf', '1_0', '.5'])]
        if r < 0.87:
            return ['T', rng.choice(TEXT_POOL)]
        if r < 0.93:
            return ['L', rng.randint(0, 1)]
        return ['E', rng.choice(sorted(core.TAG_ERRS))]
    if depth <= 0 or rng.random() < 0.12:
        return leaf()
    r = rng.random()
    if r < 0.17:
        return ['U', random_tree(rng, depth - 1)]
    if r < 0.27:
        return ['%', random_tree(rng, depth - 1)]
    if r < 0.33:
        name = rng.choice(PLAIN_FUNCS)
        n = 0 if name.upper() in ('PI', 'TRUE', 'FALSE') else 2 if name.upper() in ('POWER', 'MOD') else \
            rng.choice([1, 1, 2, 2, 3])
        args = [random_tree(rng, depth - 1) for _ in range(n)]
        if name.upper() == 'POWER':      # exponent kept small, as for ^
            args[1] = rng.choice([['N', rng.choice(['0', '1', '2', '3', '0.5'])], ['U', ['N', '2']],
                                  ['R', rng.choice(['A1', 'B2', 'C3'])]])
        if n >= 2 and rng.random() < 0.15:
            args[rng.randrange(n)] = ['Z']
        return ['F', name, args]
    op = rng.choice(['pow', 'pow', 'mul', 'div', 'add', 'sub', 'concat', 'eq', 'lt', 'gt', 'le', 'ge', 'ne'])
    if op == 'pow':
        # keep exponents small: Python's int ** int on a tower such as 10^(10^(5^4)) does not terminate in practice
        r = rng.choice([['N', rng.choice(['0', '1', '2', '3', '0.5'])], ['U', ['N', rng.choice(['1', '2'])]],
                        ['R', rng.choice(['A1', 'B2', 'C3'])], ['%', ['N', '50']],
                        ['B', 'add', ['N', '1'], ['N', '1']]])
        return ['B', op, random_tree(rng, depth - 1), r]
    return ['B', op, random_tree(rng, depth - 1), random_tree(rng, depth - 1)]


RAW_FIXED = [
    '=1+2', '= 1+2', '=1+2 ', '=  -2^2  ', '={1,2;3,4}', '={1,2}', '={1;2}', '=SUM({1,2;3,4})', '={"a",TRUE;#N/A,-1}',
    '=SUM(A1:B2)', '=A1:B2 B1:C3', '=A1 B2', '=SUM(A1:B2,C3)', '=SUM((A1,B2))', '=(1,2)', '=SUM(,1)', '=SUM(1,)',
    '=SUM(,)', '=SUM()', '=IF(1,,3)', '=PI()', '=TRUE()', '=1)', '=(1', '=((1)', '=1+', '=+', '=*1', '=1 2', '=(1)(2)',
    '=SUM(1', '=SUM(1))', '=,1', '=1,', '=SUM(1;2)', '={1,2', '=1,2}', '=)', '=(', '=()', '=1%%', '=-+-2', '=+1',
    '=1++2', '=1--2', '=2^-2', '=-2^-2', '=-(-2)^2', '=--2^2', '=(-2)^2', '=-2^2^2', '=3 + 4 * 2 / ( 1 - 5 ) ^ 2 ^ 3',
    '=sin(3.14159/2)', '=-A1%', '="a""b"&"c"', '=1<>2', '=1<=2', '=1>=2', '=SUM(1,2)%', '=100^100%', '=A1:A2:A3',
    '=MAX(-1,-2)', '=-MAX(1,2)^2', '=IF(A1>0,"y","n")', '=1=1=1', '="x"=1', '=_xlfn.FLOOR.MATH(1)', '=007', '=1E+3',
    '=SUM( 1 , 2 )', '=( 1 + 2 )', '=-  2', '=2  %', '=A1  B2', '=a1+1', '=Sheet1!A1+1', "='My Sheet'!A1", '=TRUE+1',
    '=true', '=#REF!+1', '=#N/A', '=', '==1', '=1=', '="unterminated', '=A1:', '=:A1', '=SUM(A1:INDEX(B1:B3,2))',
]


def mutate(rng, f):
    chars = '()+-*/^%&=<>,;{}" :A1.'
    f = list(f)
    for _ in range(rng.randint(1, 2)):
        r = rng.random()
        pos = rng.randint(1, len(f))
        if r < 0.4 and len(f) > 2:
            del f[min(pos, len(f) - 1)]
        elif r < 0.8:
            f.insert(pos, rng.choice(chars))
        else:
            f[min(pos, len(f) - 1)] = rng.choice(chars)
    return ''.join(f)


PY_ATOMS = ['n97', 'n98', 'd49', 'd50', 'd48,46,53', 'd48,48,55', 'd48,48', 's97', 's', 's92,110', 's92,92', 's92,34',
            's92,113', 's92', 's34', 's10', 's97,92,116,98', 'n84,114,117,101', 'n78,111,110,101', 'd49,69,51',
            'd46,53', 'd53,46']
PY_BIN = ['opow', 'omul', 'odiv', 'oadd', 'osub', 'obitand', 'oeq', 'one', 'olt', 'ogt', 'ole', 'oge']


def random_pyexpr(rng, depth):
    """token list of a random expression of the fragment, sparsely parenthesised"""
    if depth <= 0 or rng.random() < 0.2:
        return [rng.choice(PY_ATOMS)]
    r = rng.random()
    if r < 0.2:
        return ['osub'] + random_pyexpr(rng, depth - 1)
    if r < 0.3:
        return ['('] + random_pyexpr(rng, depth - 1) + [')']
    if r < 0.4:
        n = rng.randint(0, 3)
        out = ['n102', '(']
        for i in range(n):
            out += random_pyexpr(rng, depth - 1) + ([','] if i < n - 1 or rng.random() < 0.2 else [])
        return out + [')']
    if r < 0.48:
        n = rng.randint(0, 3)
        out = ['(']
        for i in range(n):
            out += random_pyexpr(rng, depth - 1) + ([','] if i < n - 1 or n == 1 or rng.random() < 0.5 else [])
        return out + [')']
    op = rng.choice(PY_BIN + ['opow', 'opow', 'omul', 'oadd'])
    return random_pyexpr(rng, depth - 1) + [op] + random_pyexpr(rng, depth - 1)


def _lit(text):
    return ['N', text]


# arithmetic at the outcome boundaries of the numeric kernels (overflow, complex, zero division, huge-but-finite
# integers): (operator, left, right), each operand = (literal tree, python value for the cell spelling)
BOUNDARY = [
    ('pow', (_lit('2.5'), 2.5), (_lit('1000'), 1000)),                 # float pow overflow -> #NUM!
    ('pow', (_lit('10.5'), 10.5), (_lit('400'), 400)),
    ('pow', (_lit('1.0001'), 1.0001), (_lit('10000000'), 10000000)),
    ('pow', (['U', _lit('2.5')], -2.5), (_lit('1001'), 1001)),
    ('mul', (_lit('1E308'), 1e308), (_lit('10'), 10)),                 # float * overflow (inf: not decided)
    ('add', (_lit('1.5E308'), 1.5e308), (_lit('1.5E308'), 1.5e308)),
    ('pow', (['U', _lit('8')], -8), (_lit('0.5'), 0.5)),               # complex -> #NUM!
    ('pow', (['U', _lit('8')], -8), (['B', 'div', _lit('1'), _lit('3')], 1 / 3)),
    ('pow', (['U', _lit('0.5')], -0.5), (_lit('1.5'), 1.5)),
    ('pow', (['U', _lit('8')], -8), (_lit('2'), 2)),                   # not complex
    ('div', (_lit('1'), 1), (_lit('0'), 0)),                           # zero divisor in every spelling -> #DIV/0!
    ('div', (_lit('1'), 1), (_lit('0.0'), 0.0)),
    ('div', (_lit('2.5'), 2.5), (['U', _lit('0')], 0)),
    ('div', (_lit('1'), 1), (['%', _lit('0')], 0.0)),
    ('div', (_lit('0'), 0), (_lit('0'), 0)),
    ('div', (_lit('0.0'), 0.0), (_lit('00'), 0)),
    ('pow', (_lit('0'), 0), (['U', _lit('1')], -1)),                   # 0 ^ negative -> #DIV/0!
    ('pow', (_lit('0.0'), 0.0), (['U', _lit('0.5')], -0.5)),
    ('pow', (_lit('0'), 0), (_lit('0'), 0)),
    ('pow', (_lit('2'), 2), (_lit('200'), 200)),                       # huge but finite integers
    ('pow', (_lit('10'), 10), (_lit('400'), 400)),
    ('mul', (_lit('1267650600228229401496703205376'), 2 ** 100), (_lit('1267650600228229401496703205376'), 2 ** 100)),
    ('div', (['B', 'pow', _lit('2'), _lit('200')], 2 ** 200), (_lit('1267650600228229401496703205376'), 2 ** 100)),
    ('sub', (['B', 'pow', _lit('2'), _lit('200')], 2 ** 200), (_lit('1'), 1)),
    ('div', (_lit('4'), 4), (_lit('2'), 2)),                           # int / int -> integral float
    ('pow', (_lit('2'), 2), (['U', _lit('1')], -1)),
    ('pow', (_lit('4'), 4), (_lit('0.5'), 0.5)),
]


def boundary_cases():
    for op, (ll, lv), (rl, rv) in BOUNDARY:
        env = {'A1': core.enc(lv), 'B2': core.enc(rv), 'C3': 'n:1/1'}
        for l, r in ((ll, rl), (ll, ['R', 'B2']), (['R', 'A1'], rl), (['R', 'A1'], ['R', 'B2'])):
            t = ['B', op, l, r]
            yield from both(minimal_parens(t), env=env)
            yield from both(minimal_parens(['B', 'add', t, _lit('1')]), env=env)
            yield from both(minimal_parens(['U', ['P', t]]), env=env)


def surf_case(s, ws=None, env=None, part='sem'):
    return {'k': 'surf', 's': s, 'ws': ws, 'env': env if env is not None else ENV0, 'part': part}


def both(s, ws=None, env=None):
    """the meaning part (governed; only for well-formed trees in scope) and the code-shape part of one formula"""
    if wf(s) and in_scope(s):
        yield surf_case(s, ws, env, 'sem')
    yield surf_case(s, ws, env, 'code')


TEMPLATES = [      # precedence / associativity shows as a VALUE with mixed-type operands
    ['B', 'concat', ['N', '1'], ['B', 'add', ['R', 'A1'], ['R', 'B2']]],                 # =1&A1+B2
    ['B', 'concat', ['B', 'add', ['R', 'A1'], ['N', '2']], ['R', 'B2']],                 # =A1+2&B2
    ['B', 'pow', ['U', ['R', 'A1']], ['R', 'B2']],                                       # =-A1^B2
    ['B', 'eq', ['B', 'eq', ['R', 'A1'], ['R', 'B2']], ['R', 'C3']],                     # =A1=B2=C3
    ['B', 'lt', ['B', 'lt', ['R', 'A1'], ['R', 'B2']], ['R', 'C3']],                     # =A1<B2<C3
    ['B', 'pow', ['N', '2'], ['%', ['U', ['R', 'A1']]]],                                 # =2^-A1%
    ['B', 'sub', ['R', 'A1'], ['B', 'sub', ['R', 'B2'], ['R', 'C3']]],                   # =A1-(B2-C3)
    ['B', 'sub', ['B', 'sub', ['R', 'A1'], ['R', 'B2']], ['R', 'C3']],                   # =A1-B2-C3
    ['B', 'div', ['B', 'div', ['R', 'A1'], ['R', 'B2']], ['R', 'C3']],                   # =A1/B2/C3
    ['B', 'div', ['R', 'A1'], ['B', 'mul', ['R', 'B2'], ['R', 'C3']]],                   # =A1/(B2*C3)
    ['B', 'pow', ['B', 'pow', ['R', 'A1'], ['R', 'B2']], ['N', '2']],                    # =A1^B2^2
    ['B', 'add', ['R', 'A1'], ['B', 'mul', ['R', 'B2'], ['R', 'C3']]],                   # =A1+B2*C3
    ['B', 'mul', ['U', ['R', 'A1']], ['%', ['R', 'B2']]],                                # =-A1*B2%
    ['B', 'ge', ['B', 'concat', ['R', 'A1'], ['R', 'B2']], ['B', 'add', ['R', 'C3'], ['N', '1']]],   # =A1&B2>=C3+1
    ['U', ['%', ['P', ['B', 'add', ['R', 'A1'], ['R', 'B2']]]]],                         # =-(A1+B2)%
    ['B', 'ne', ['U', ['R', 'A1']], ['B', 'concat', ['R', 'B2'], ['T', '']]],            # =-A1<>B2&""
    ['B', 'concat', ['E', 'na'], ['T', 'x']], ['B', 'concat', ['T', 'x'], ['E', 'div0']],
    ['B', 'concat', ['B', 'concat', ['T', 'a'], ['T', 'b']], ['E', 'ref']],
]


def cases(tier, rng):
    thorough = tier == 'thorough'
    # --- literals (text pool: quotes, backslashes, newlines, braces, non-BMP; numbers incl. leading zeros, exponents)
    for s in TEXT_POOL:
        yield from both(['T', s])
        yield from both(['B', 'concat', ['T', s], ['T', 'z']])
        yield from both(['F', 'LEN', [['T', s]]])
        yield from both(['B', 'eq', ['T', s], ['R', 'A1']], env={'A1': core.enc_text(s)})
    for _ in range(400 if thorough else 60):
        n = rng.randint(1, 6)
        s = ''.join(rng.choice(['a', '"', '\\', '\n', '\r', '{', '}', 'n', 't', ' ', "'", '0', 'x', 'é', '\t', '😀', '𝄞'])
                    for _ in range(n))
        yield from both(['T', s])
    for t in NUM_POOL:
        yield from both(['N', t])
        yield from both(['B', 'add', ['N', t], ['N', '1']])
        yield from both(['U', ['N', t]])
    for b in (0, 1):
        yield from both(['L', b])
    for e in sorted(core.TAG_ERRS):
        yield from both(['E', e])
        yield from both(['B', 'add', ['E', e], ['N', '1']])
        yield from both(['B', 'concat', ['E', e], ['T', 'x']])
        yield from both(['B', 'concat', ['T', 'x'], ['E', e]])
    # --- precedence templates over all ordered pairs / sampled triples of the mixed-type pool
    pool = VAL_POOL if thorough else VAL_POOL[::2] + ['z', 'b:1', 'e:na']
    for t in TEMPLATES:
        refs = sorted({x[1] for x in _walk(t) if x[0] == 'R'})
        if not refs:
            yield surf_case(minimal_parens(erase(t)))
        elif len(refs) <= 2:
            for a in pool:
                for b in (pool if len(refs) == 2 else [pool[0]]):
                    yield surf_case(minimal_parens(erase(t)), env={'A1': a, 'B2': b, 'C3': 'n:1/1'})
        else:
            for _ in range(len(pool) * len(pool)):
                yield surf_case(minimal_parens(erase(t)), env={'A1': rng.choice(pool), 'B2': rng.choice(pool),
                                                                'C3': rng.choice(pool)})
    # --- exhaustive small scope, minimal parentheses and fully parenthesised, cell value rotating over the types
    leaves = [['N', '2'], ['R', 'A1']] + ([['T', 'x']] if thorough else [])
    binary = ['pow', 'mul', 'add', 'concat', 'lt']
    trees = exhaustive_trees(2, leaves, ['U', '%'], binary)
    for i, t in enumerate(trees):
        env = {'A1': SMALL_VALS[i % len(SMALL_VALS)], 'B2': 'n:-2/1', 'C3': 'n:1/2'}
        yield from both(minimal_parens(t), env=env)
        if thorough or i % 5 == 0:
            yield from both(full_parens(t), env=env)
    if thorough:
        # depth 3 over the classes that interact (neg, %, ^, *, +) on one leaf kind, sampled down
        trees3 = exhaustive_trees(2, [['N', '2'], ['R', 'B2']], ['U', '%'], ['pow', 'div', 'sub', 'ge'])
        for i, t in enumerate(trees3):
            yield from both(minimal_parens(t), env={'A1': 'n:3/1', 'B2': SMALL_VALS[i % len(SMALL_VALS)], 'C3': 'n:1/2'})
    # --- random trees: all operators, functions, literals, redundant parentheses, white space, dropped parentheses,
    #     environments drawn from the mixed-type pool
    for i in range(12000 if thorough else 1400):
        t = random_tree(rng, rng.randint(1, 5 if thorough else 4))
        r = rng.random()
        if r < 0.12:
            s = minimal_parens(t, drop=rng)
        else:
            s = minimal_parens(t)
            if r < 0.5:
                s = extra_parens(s, rng)
        yield from both(s, ws=rng.randrange(1 << 30) if rng.random() < 0.5 else None, env=random_env(rng))
    # unary minus against every operator on either side (the class the recon defect lives in)
    for op in XL2PY:
        for l, r in ((['U', ['N', '2']], ['N', '3']), (['N', '3'], ['U', ['N', '2']]),
                     (['U', ['U', ['R', 'A1']]], ['N', '2']), (['U', ['%', ['N', '2']]], ['N', '2']),
                     (['%', ['U', ['N', '2']]], ['U', ['N', '2']]),
                     (['U', ['P', ['B', 'add', ['N', '1'], ['N', '2']]]], ['N', '2']),
                     (['U', ['F', 'SUM', [['N', '1'], ['N', '2']]]], ['N', '2'])):
            yield from both(minimal_parens(['B', op, l, r]))
            yield from both(['P', ['B', op, ['P', l] if l[0] == 'U' else l, ['P', r] if r[0] == 'U' else r]])
    # --- kernel outcome boundaries: literal/literal, literal/cell, cell/literal, cell/cell
    yield from boundary_cases()
    # --- every function with a dedicated emitter (live) and a sample of library functions, in every operand position
    for call in sample_calls():
        yield from both(call)
        for t in call_positions(call):
            yield from both(minimal_parens(t))
        yield from both(['B', 'pow', ['P', call], ['N', '2']])
    # --- raw strings
    for f in RAW_FIXED:
        yield {'k': 'raw', 'f': f, 'bad': _raw_bad(f)}
    for _ in range(3000 if thorough else 500):
        base = rng.choice(RAW_FIXED) if rng.random() < 0.5 else \
            '=' + render(extra_parens(minimal_parens(random_tree(rng, 3)), rng), rng)
        f = mutate(rng, base)
        yield {'k': 'raw', 'f': f, 'bad': _raw_bad(f)}
    # --- python fragment
    for toks in (['osub', 'd50', 'opow', 'd50'], ['(', 'osub', 'd50', ')', 'opow', 'd50'], ['d50', 'opow', 'osub', 'd50'],
                 ['osub', 'osub', 'd50'], ['d49', 'olt', 'd50', 'olt', 'd51'], ['(', ')'], ['(', 'd49', ',', ')'],
                 ['(', 'd49', ')'], ['n102', '(', ')'], ['n102', '(', 'd49', ',', ')'], ['d48,48,55'], ['s92'],
                 ['d49', 'oadd', 'd50', 'omul', 'd51'], ['d49', 'obitand', 'd50', 'oadd', 'd51'], ['s92,113'],
                 ['d50', 'opow', 'd51', 'opow', 'd50'], ['osub', 'd50', 'opow', 'osub', 'd51', 'opow', 'd50'],
                 ['d49', 'osub', 'osub', 'd50'], ['oadd', 'd49'], ['d49', 'd50'], [], ['('], [')'],
                 ['d49', ','], ['n102', '(', ',', ')'], ['(', ',', ')'], ['d49', 'oeq', 'd50', 'obitand', 'd51']):
        yield {'k': 'py', 't': toks, 'bad': dump_pyast(py_source(toks)) == 'none'}
    for _ in range(6000 if thorough else 1200):
        toks = random_pyexpr(rng, rng.randint(1, 4))
        if rng.random() < 0.15 and toks:
            pos = rng.randrange(len(toks))
            if rng.random() < 0.5:
                del toks[pos]
            else:
                toks.insert(pos, rng.choice(PY_BIN + ['(', ')', ',', 'd49']))
        toks = _py_fragment_guard(toks)
        yield {'k': 'py', 't': toks, 'bad': dump_pyast(py_source(toks)) == 'none'}


def _py_fragment_guard(toks):
    """keep random token lists inside what the model claims: no adjacent string literals, no primary directly
    followed by '(' other than NAME '('"""
    out = []
    for t in toks:
        if out and t[0] == 's' and out[-1][0] == 's':
            out.append('oadd')
        if out and t == '(' and (out[-1] == ')' or out[-1][0] in 'ds'):
            out.append('omul')
        out.append(t)
    return out


def _raw_bad(f):
    from pycel.excelformula import ExcelFormula
    try:
        e = ExcelFormula(f)
        return not e.rpn or e.ast is None
    except Exception:   # noqa
        return True

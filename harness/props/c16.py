"""C16 — lookup functions agree with a linear-scan definition (lookup.py:66-141, 197-501; ExcelCmp).  DESIGN.md §7 C16."""
import itertools
from fractions import Fraction

from harness import core, pyc

ID = 'C16'
LEAN_MODULE = 'Pycel.Props.C16'
NS = 'Pycel.Lookup.'
THEOREMS = [NS + t for t in (
    'errOrd_live', 'wrapper_meta_live', 'ltK_irrefl', 'ltK_trans', 'ltK_total', 'C16_bisect', 'C16_bisect_range', 'C16_wild_spec', 'C16_matches_spec',
    'C16_exact', 'C16_exact_na', 'C16_exact_first', 'C16_approx_asc', 'C16_approx_asc_na', 'descPW_shape',
    'C16_approx_desc', 'C16_approx_desc_na', 'C16_atLeast_spec', 'pmatch_range', 'C16_vlookup', 'C16_hlookup',
    'C16_lookup', 'C16_lookup_not_vector', 'C16_transpose', 'C16_out_of_range', 'C16_index_in_range',
    'C16_index_out_of_range', 'C16_lookup_cell')]
DESIGN_REF = 'DESIGN.md §7 C16'
RULE = ('ops match/vlookup/hlookup/lookup/index called through their excel_helper wrappers (lib_call) and, for a '
        'sample, through compiled formulas over ranges (eval_formula). Vectors: every vector up to length 3 (4 in '
        'thorough) over a 9-value mixed pool, then random vectors up to length 8 over the full pool (numbers, '
        'mixed-case text, logicals, blanks, errors, duplicates) in four shapes: unsorted, sorted ascending / '
        'descending by the Excel order with 0-2 blanks at each end, and with interior blanks; each as a row and as a '
        'column; every pool value and every wildcard pattern as lookup value; match types -1/0/1 (plus coerced and odd '
        'ones in the malformed stream). Tables up to 6x4 (VLOOKUP) and their transposes (HLOOKUP) with every result '
        'index from -1 to width+2 and both range_lookup values; LOOKUP in vector and array form; INDEX with every '
        '(row, col) from -1 to size+1 and omitted col. A case is non-trivial when the searched vector has at least two '
        'cells and the lookup value is not an error; distinct = distinct case dict.')
ASSUMPTIONS = [
    'text is drawn from U+0001..U+00FF (line breaks, tabs, control characters, Latin-1 letters included); case-'
    'insensitivity is modelled as Python str.lower() on that range (A-Z, À-Þ move 32 up; ß and every non-letter are '
    'unchanged; checked against Python for all 256 code points); text beyond Latin-1 and text spelling an error code are '
    'not sent by the random streams; cases holding ß or letters beyond Latin-1 (a deterministic block with ß, ﬁ, ı/İ, ǅ, '
    'ς/σ in their lower-case forms, on which str.lower() is the identity) are governed only where length and `?` '
    'alone fix the answer (texts of different length are never equal; `?` is exactly one character), otherwise '
    'ungoverned; İ is not combined with wildcards (str.lower() turns it into two characters, so the code itself makes '
    '`?` miss it — recorded, not repaired in this round)',
    'numbers are dyadic rationals sent exactly; NaN/inf are not generated',
    'match_type / index arguments given as text are modelled only as "not a number" (#VALUE!); non-integral indices '
    'are not generated (the code raises TypeError on table[1.5])',
    'a one-cell range written in a formula (A1:A1) reaches the functions as the cell value: MATCH accepts it (one-cell '
    'vectors are in the formula stream); VLOOKUP/HLOOKUP/LOOKUP/INDEX answer #N/A / #VALUE! for it by design (pinned '
    'tests), so one-cell tables are exercised through lib_call only',
    'array-valued lookup values (CSE evaluation) are not generated',
]
TRUSTED = ['modelled, not verified: Python tuple/str/float comparison inside ExcelCmp, str.lower(), re (the wildcard '
           'regex is modelled by the structural matcher wildT)']
REQUIRED_BUCKETS = ['match:exact', 'match:exact-wild', 'match:asc-sorted', 'match:desc-sorted', 'match:unsorted',
                    'match:interior-blank', 'vlookup', 'hlookup', 'vlookup:out-of-range', 'hlookup:out-of-range',
                    'lookup', 'index', 'index:out-of-range', 'malformed', 'formula']
EXHAUSTIVE = False

# ---------------------------------------------------------------------------------------------------------------
# values

NUMS = [-1, 0, 1, 1.5, 2, 3]
TEXTS = ['', 'a', 'B', 'b', 'ab', 'Ab', 'abc', 'a?', 'b*', 'a.']
# ordinary cell text that regex engines treat specially: line breaks (Alt+Enter cells), tabs, control characters,
# Latin-1 letters with case
SPECIAL_TEXTS = ['a\nb', 'A\nB\nc', '\n', 'a\rb', 'a\tb', 'a\r\nb', 'a\x01b', 'ab\n', 'É', 'é', 'Éa\nb', 'ß', 'aßb']
SPECIAL_PATTERNS = ['a?b', 'a*b', '*b', 'a*', '?\n?', 'a\n*', '*\n', '???', 'É*', 'é?\nb', '*ß*', 'a??b', '~a*\nb']
BOOLS = [False, True]
ERRS = ['#N/A', '#DIV/0!']
PATTERNS = ['a*', '?b', '*', '?', 'A?C', '*b*', '??', 'a.*', 'a+*', '(*', '[ab]?', 'a~?', '~*', 'b~*', 'a~', '~a?']
UNI_CELLS = ['Straße', 'Strasse', 'STRASSE', 'ß', 'ss', 'ﬁ', 'fi', 'ı', 'İ', 'i', 'ǅ', 'ς', 'σ', 'oς', 'oσ']
UNI_LOOKUPS = ['strasse', 'STRASSE', 'straße', 'Straße', 'stra?e', 'stra??e', 'STRA?E', 'stra*e', '?', '??', 'ss', 'ß',
               'fi', 'ﬁ', 'f?', '?i', 'i', 'I', 'ı', 'ǅ', 'ς', 'σ', 'o?']
UNI_TWINS = [('Straße', 'Strasse'), ('ß', 'ss'), ('ﬁ', 'fi'), ('ς', 'σ'), ('ı', 'i')]
SMALL = [0, 1, 'a', 'B', 'b', True, False, None, '#N/A']
SMALL_LOOK = [0, 1, 2, 'a', 'b', 'A', 'c', '?', True, False, None]


def tok(v):
    if isinstance(v, str) and v not in core.ERR_TAGS:
        return core.enc_text(v)
    return core.enc(v)


def py(t, as_float=False):
    v = core.dec(t)
    if isinstance(v, Fraction):
        if v.denominator == 1 and not as_float:
            return int(v)
        return float(v)
    return v


def tclass(v):
    if v is None:
        return 'z'
    if isinstance(v, bool):
        return 'b'
    if isinstance(v, str):
        return 'e' if v in core.ERR_TAGS else 's'
    return 'n'


RANK = {'n': 0, 's': 1, 'b': 2, 'e': 3}
ERR_ORD = {e: i for i, e in enumerate(sorted(core.ERR_TAGS))}


def okey(v):
    """the Excel order restated for the generator/oracle: (rank, value); blank is not ordered (callers drop it)"""
    c = tclass(v)
    if c == 'n':
        return (0, Fraction(v))
    if c == 's':
        return (1, v.lower())
    if c == 'b':
        return (2, v)
    return (3, ERR_ORD[v])


def parse_pat(p):
    out, i = [], 0
    while i < len(p):
        c = p[i]
        if c == '~':
            out.append(('lit', p[i + 1] if i + 1 < len(p) else '~'))
            i += 2
            continue
        out.append(('one',) if c == '?' else ('many',) if c == '*' else ('lit', c))
        i += 1
    return out


def wild_match(pat, s):
    """reference ?/*/~ matcher (dynamic programming over positions; independent of the Lean model and of re)"""
    toks = parse_pat(pat.lower())
    s = s.lower()
    cur = {0}
    for t in toks:
        nxt = set()
        if t[0] == 'many':
            if cur:
                nxt = set(range(min(cur), len(s) + 1))
        else:
            for k in cur:
                if k < len(s) and (t[0] == 'one' or s[k] == t[1]):
                    nxt.add(k + 1)
        cur = nxt
    return len(s) in cur


def has_wild(s):
    return any(c in s for c in '?*~')


def ref_equal(v, x):
    """'equals v (type-strict, case-insensitive, ?/* wildcards for text)'"""
    cv, cx = tclass(v), tclass(x)
    if cv != cx or cv in 'ze':
        return False
    if cv == 's':
        return wild_match(v, x) if has_wild(v) else v.lower() == x.lower()
    return v == x


# ---------------------------------------------------------------------------------------------------------------
# cases

def mcase(v, vec, mt, orient, shape, via=None, fl=False):
    arr = [[tok(x) for x in vec]] if orient == 'row' else [[tok(x)] for x in vec]
    c = {'op': 'match', 'v': tok(v), 'mt': tok(mt), 'arr': arr, 'shape': shape}
    if via:
        c['via'] = via
    if fl:
        c['fl'] = True
    return c


def tcase(op, v, table, k, rl, shape, via=None):
    c = {'op': op, 'v': tok(v), 'k': tok(k), 'rl': tok(rl), 'arr': [[tok(x) for x in r] for r in table],
         'shape': shape}
    if via:
        c['via'] = via
    return c


def lcase(v, table, rr, shape, via=None):
    c = {'op': 'lookup', 'v': tok(v), 'arr': [[tok(x) for x in r] for r in table], 'shape': shape}
    if rr is not None:
        c['rr'] = [[tok(x) for x in r] for r in rr]
    if via:
        c['via'] = via
    return c


def icase(table, row, col, via=None):
    c = {'op': 'index', 'row': tok(row), 'arr': [[tok(x) for x in r] for r in table]}
    if col != 'omit':
        c['col'] = tok(col)
    if via:
        c['via'] = via
    return c


def transpose(t):
    return [list(r) for r in zip(*t)]


def shaped_vector(rng, n, shape, pool):
    """(vector, shape) — shape names what the vector is, by construction"""
    if shape == 'unsorted':
        return [rng.choice(pool) for _ in range(n)]
    lead, trail = rng.choice([0, 0, 1, 2]), rng.choice([0, 0, 1, 2])
    m = max(0, n - lead - trail)
    core_ = [rng.choice([p for p in pool if p is not None]) for _ in range(m)]
    if rng.random() < 0.5 and core_:
        # one type only: the plain Excel use
        cls = tclass(rng.choice(core_))
        core_ = [rng.choice([p for p in pool if tclass(p) == cls]) for _ in range(m)]
    core_.sort(key=okey, reverse=(shape == 'desc'))
    if shape == 'interior':
        core_.sort(key=okey, reverse=rng.random() < 0.3)
        for _ in range(rng.choice([1, 1, 2])):
            if len(core_) >= 2:
                core_.insert(rng.randint(1, len(core_) - 1), None)
    return ([None] * lead + core_ + [None] * trail)[:max(n, 1)] or [None]


def cases(tier, rng):
    thorough = tier == 'thorough'
    full = NUMS + TEXTS + ['a\nb', '\n', 'a\tb', 'É', 'é'] + BOOLS + [None] + ERRS
    lookups = NUMS + TEXTS + BOOLS + [None] + PATTERNS + [2.5, 'c', 'AB'] + SPECIAL_PATTERNS[:6] + SPECIAL_TEXTS[:3]
    # --- 0a. ==-equal but differently typed values and vectors, consecutively in one process (1 == True == 1.0 and
    #         0 == False in Python: any memo / dict / set keyed on the raw values confuses them)
    twins = [([0, 1], [False, True]), ([1, 0], [True, False]), ([1, True], [True, 1]), ([0, 'a', 1], [False, 'a', True]),
             ([1, 1, 0], [True, 1, False]), ([None, 0, 1, None], [None, False, True, None])]
    for va, vb in twins:
        for mt in (0, 1, -1):
            for orient in ('col', 'row'):
                for vec in (va, vb, va):
                    for v, fl in ((1, False), (True, False), (1, True), (0, False), (False, False), (0, True), (True, False),
                                  (1, False)):
                        yield mcase(v, vec, mt, orient, classify(vec), fl=fl)
        ta, tb = [[x, 'r%d' % i] for i, x in enumerate(va)], [[x, 'r%d' % i] for i, x in enumerate(vb)]
        for rl in (False, True):
            for t in (ta, tb, ta):
                for v in (1, True, 0, False, 1):
                    yield tcase('vlookup', v, t, 2, rl, classify([r[0] for r in t]))
                    yield tcase('hlookup', v, transpose(t), 2, rl, classify([r[0] for r in t]))
                    yield lcase(v, t, None, classify([r[0] for r in t]))
    # --- 0b. text with line breaks, tabs, control characters and Latin-1 letters, in cells and in patterns: every
    #         special/plain pattern against every special text, alone and behind a non-matching cell
    for pat in SPECIAL_PATTERNS + PATTERNS + SPECIAL_TEXTS:
        for txt in SPECIAL_TEXTS + ['ab', 'a', 'AB']:
            for vec in ([txt], ['zz', txt], [txt.upper(), 1, txt]):
                yield mcase(pat, vec, 0, 'col', classify(vec))
            yield tcase('vlookup', pat, [['zz', 1], [txt, 2]], 2, False, 'unsorted')
            yield tcase('hlookup', pat, [['zz', txt], [1, 2]], 2, False, 'unsorted')
    sp_sorted = sorted(SPECIAL_TEXTS + ['a', 'b'], key=okey)
    for v in SPECIAL_TEXTS + ['a', 'b', 'a\n', 'A\nB']:
        yield mcase(v, sp_sorted, 1, 'col', classify(sp_sorted))
        yield mcase(v, sp_sorted[::-1], -1, 'row', classify(sp_sorted[::-1]))
        yield mcase(v, sp_sorted, 0, 'col', classify(sp_sorted), via='formula')
    # --- 0c. letters whose case mapping is special (ß, ﬁ, ı/İ, ǅ, ς/σ): what the statement decides whatever the case
    #         pairing is — texts of different length are never equal, `?` is exactly one character of the cell
    for v in UNI_LOOKUPS:
        for x in UNI_CELLS:
            if 'İ' in x and ('?' in v or '*' in v):
                continue     # str.lower() turns İ into two characters; not generated with wildcards (see ASSUMPTIONS)
            for vec in ([x], ['zz', x], [1, x, x.upper() if x.isascii() else x]):
                yield mcase(v, vec, 0, 'col', classify(vec))
            yield tcase('vlookup', v, [['zz', 1], [x, 2]], 2, False, 'unsorted')
            yield tcase('hlookup', v, [['zz', x], [1, 2]], 2, False, 'unsorted')
        for a, b in UNI_TWINS:
            for vec in ([a, b], [b, a]):
                yield mcase(v, vec, 0, 'row', classify(vec))
                yield tcase('vlookup', v, [[vec[0], 1], [vec[1], 2]], 2, False, classify(vec))
    # --- 1. small scope exhaustive: every vector up to length 3 (4) x lookups x match types
    count = 0
    for n in range(1, 5 if thorough else 4):
        for vec in itertools.product(SMALL, repeat=n):
            count += 1
            orient = 'col' if (count & 1) else 'row'
            for v in SMALL_LOOK:
                for mt in (-1, 0, 1):
                    yield mcase(v, vec, mt, orient, classify(vec))
    # --- 2. random vectors up to length 8, four shapes, both orientations, every lookup value
    for i in range(8000 if thorough else 330):
        n = rng.randint(1, 8)
        shape = ('unsorted', 'asc', 'desc', 'interior')[i % 4]
        vec = shaped_vector(rng, n, shape, full)
        orient = 'col' if rng.random() < 0.5 else 'row'
        via = 'formula' if i % 10 == 0 else None
        for v in (lookups if via is None else rng.sample(lookups, 6)):
            for mt in (-1, 0, 1):
                yield mcase(v, vec, mt, orient, classify(vec), via=via, fl=(i % 7 == 0))
    # --- 2b. sorted NEGATIVE numbers behind leading blank cells (a blank compares as 0 wherever a search looks at it:
    #          above every negative number), looked up by negative / zero / positive values, both approximate modes
    negs = [-8, -6, -4, -2, -1.5, -1]
    for lead in (1, 2, 3):
        for trail in (0, 1, 2):
            for m in (2, 3, 4, 6):
                core_ = negs[:m] if m < 6 else negs
                for mixed in (False, True):
                    body = core_ + ([0, 3] if mixed else [])
                    for mt in (1, -1):
                        vec = [None] * lead + (body if mt == 1 else body[::-1]) + [None] * trail
                        for v in (-9, -8, -7, -5, -4, -3, -1.75, -1, -0.5, 0, 1, 5):
                            yield mcase(v, vec, mt, 'col' if (lead + m) & 1 else 'row', classify(vec))
                    if not mixed and lead < 3:
                        table = [[x, f't{i}'] for i, x in enumerate([None] * lead + body + [None] * trail)]
                        for v in (-7, -4, -3, -1):
                            yield tcase('vlookup', v, table, 2, True, classify([r[0] for r in table]))
                            yield tcase('hlookup', v, transpose(table), 2, True, classify([r[0] for r in table]))
                            yield lcase(v, table, None, classify([r[0] for r in table]))
    # --- 3. tables up to 6x4: VLOOKUP, HLOOKUP on the transpose, every result index, both range_lookup values
    tl = [-1, 0, 1, 1.5, 2, 3, 'a', 'B', 'ab', 'abc', True, False, None, 'a*', 2.5]
    for i in range(2000 if thorough else 110):
        r, c = rng.randint(1, 6), rng.randint(1, 4)
        shape = ('asc', 'unsorted', 'asc', 'interior')[i % 4]
        first = shaped_vector(rng, r, shape, full)
        r = len(first)
        table = [[first[j]] + [rng.choice(full) for _ in range(c - 1)] for j in range(r)]
        via = 'formula' if (i % 8 == 0 and r * c >= 2) else None
        for v in (tl if via is None else rng.sample(tl, 4)):
            for k in range(-1, c + 3):
                for rl in (True, False):
                    yield tcase('vlookup', v, table, k, rl, classify(first), via=via)
                    yield tcase('hlookup', v, transpose(table), k, rl, classify(first), via=via)
        # LOOKUP: array form on the table and its transpose, vector form with result vectors
        for v in tl:
            yield lcase(v, table, None, classify(first), via=via)
            yield lcase(v, transpose(table), None, classify(first), via=via)
            res = [rng.choice(full) for _ in range(r)]
            yield lcase(v, [[x] for x in first], [[x] for x in res], classify(first))
            yield lcase(v, [first], [res], classify(first))
            yield lcase(v, [[x] for x in first], [res], classify(first))
        # INDEX: every (row, col) from -1 to size+1, col omitted, row 0
        for row in range(-1, r + 2):
            for col in ['omit'] + list(range(-1, c + 2)):
                yield icase(table, row, col, via=via)
    for t in ([[1, 2, 3]], [[1], [2], [3]], [[7]]):
        for row in range(-1, 5):
            for col in ['omit', None] + list(range(-1, 5)):
                yield icase(t, row, col)
    # --- 4. malformed / coerced arguments
    vec = [1, 2, 'a', 'b', True]
    for mt in (2, -2, 0.5, True, False, None, 'x', '#N/A', '#DIV/0!', 1.0):
        for v in (2, 'a', True, '#REF!', None):
            yield dict(mcase(v, vec, mt, 'col', 'malformed'), fl=isinstance(mt, float))
    for v in ('#REF!', '#N/A'):
        for mt in (-1, 0, 1):
            yield mcase(v, vec, mt, 'row', 'malformed')
    table = [[1, 'x', True], [2, '#DIV/0!', None], ['#N/A', 'y', 3], ['a', 'z', 4]]
    for op, t in (('vlookup', table), ('hlookup', transpose(table))):
        for v in (2, 'a', '#REF!', None, 5):
            for k in (True, False, None, 'x', '#NUM!', 2, 9):
                for rl in (True, False, None, 0, 1, 2, '', 'x', '#NAME?'):
                    yield tcase(op, v, t, k, rl, 'malformed')
    for v in (2, 'a', '#REF!', None):
        yield lcase(v, table, [[1, 2], [3, 4]], 'malformed')
        yield lcase(v, table, [[1, 2, 3], [3, 4, 5]], 'malformed')
        yield lcase(v, table, [[1, 2], [3, 4], [5, 6]], 'malformed')
        yield lcase(v, table, [[9]], 'malformed')
    for row in (True, None, 'x', '#NUM!', 2):
        for col in (True, None, 'x', '#N/A', 1, 'omit'):
            c = icase(table, row, col)
            c['shape'] = 'malformed'
            yield c


def classify(vec):
    """what the vector is (decides which clauses of the property speak about it)"""
    n = len(vec)
    lo = 0
    while lo < n and vec[lo] is None:
        lo += 1
    hi = n
    while hi > 0 and vec[hi - 1] is None:
        hi -= 1
    core_ = list(vec[lo:hi])
    if any(x is None for x in core_):
        return 'interior'
    ks = [okey(x) for x in core_]
    asc = all(ks[i] <= ks[i + 1] for i in range(len(ks) - 1))
    desc = all(ks[i] >= ks[i + 1] for i in range(len(ks) - 1))
    if asc and desc:
        return 'both'
    return 'asc' if asc else 'desc' if desc else 'unsorted'


# ---------------------------------------------------------------------------------------------------------------
# implementation / model

def _arr(c, key='arr'):
    fl = c.get('fl', False)
    return tuple(tuple(py(x, fl) for x in r) for r in c[key])


def _col(n):
    return 'ABCDEFGHIJ'[n]


def _place(cells, arr, c0, r0):
    for i, r in enumerate(arr):
        for j, x in enumerate(r):
            if x is not None:
                cells[f'{_col(c0 + j)}{r0 + i}'] = x
    return f'{_col(c0)}{r0}:{_col(c0 + len(arr[0]) - 1)}{r0 + len(arr) - 1}'


def _lit(v):
    if v is None:
        return ''
    if isinstance(v, bool):
        return 'TRUE' if v else 'FALSE'
    if isinstance(v, str):
        return '"' + v.replace('"', '""') + '"'
    return repr(v)


def _formula(c):
    """the same call written as a formula over ranges; the lookup value sits in cell J20"""
    cells = {}
    a = _place(cells, _arr(c), 0, 1)
    op = c['op']
    if op != 'index':
        v = py(c['v'], c.get('fl', False))
        if v is not None:
            cells['J20'] = v
    if op == 'match':
        return f'=MATCH(J20,{a},{_lit(py(c["mt"]))})', cells
    if op in ('vlookup', 'hlookup'):
        return f'={op.upper()}(J20,{a},{_lit(py(c["k"]))},{_lit(py(c["rl"]))})', cells
    if op == 'lookup':
        if 'rr' in c:
            b = _place(cells, _arr(c, 'rr'), 0, 10)
            return f'=LOOKUP(J20,{a},{b})', cells
        return f'=LOOKUP(J20,{a})', cells
    if 'col' in c:
        return f'=INDEX({a},{_lit(py(c["row"]))},{_lit(py(c["col"]))})', cells
    return f'=INDEX({a},{_lit(py(c["row"]))})', cells


def call(c):
    if c.get('via') == 'formula':
        f, cells = _formula(c)
        return pyc.eval_formula(f, cells)
    fl = c.get('fl', False)
    op = c['op']
    a = _arr(c)
    if op == 'match':
        return pyc.lib_call('match', py(c['v'], fl), a, py(c['mt'], fl))
    if op in ('vlookup', 'hlookup'):
        return pyc.lib_call(op, py(c['v']), a, py(c['k']), py(c['rl']))
    if op == 'lookup':
        if 'rr' in c:
            return pyc.lib_call('lookup', py(c['v']), a, _arr(c, 'rr'))
        return pyc.lib_call('lookup', py(c['v']), a)
    if 'col' in c:
        return pyc.lib_call('index', a, py(c['row']), py(c['col']))
    return pyc.lib_call('index', a, py(c['row']))


def impl(c):
    return core.enc(call(c))


def _enc_arr(arr):
    return ' '.join([f'a:{len(arr)}:{len(arr[0])}'] + [x for r in arr for x in r])


def model_lines(c):
    if c.get('via') == 'formula':
        d = dict(c)
        del d['via']
        return ['c16 top ' + model_lines(d)[0][4:]]
    op = c['op']
    if op == 'match':
        return [f"c16 match {c['v']} {c['mt']} {_enc_arr(c['arr'])}"]
    if op in ('vlookup', 'hlookup'):
        return [f"c16 {op} {c['v']} {c['k']} {c['rl']} {_enc_arr(c['arr'])}"]
    if op == 'lookup':
        extra = ' ' + _enc_arr(c['rr']) if 'rr' in c else ''
        return [f"c16 lookup {c['v']} {_enc_arr(c['arr'])}{extra}"]
    return [f"c16 index {c['row']} {c.get('col', '-')} {_enc_arr(c['arr'])}"]


# ---------------------------------------------------------------------------------------------------------------
# what the property decides

def _vec(c):
    a = _arr(c)
    return list(a[0]) if len(a) == 1 else [r[0] for r in a]


def _plain_lookup(v):
    return tclass(v) in 'nsb'


def _simple_pattern(v):
    """text lookup that is plain or made of literals and `?` only: it can only equal / match a cell of its own length"""
    return isinstance(v, str) and v not in core.ERR_TAGS and '*' not in v and '~' not in v


def _surely(v, x):
    """v (plain or literals+`?`) certainly matches text x: same length and every position is `?`, the identical
    character, or the same ASCII letter in the other case — true under any notion of case-insensitivity"""
    return len(v) == len(x) and all(
        p == '?' or p == ch or (p.isascii() and ch.isascii() and p.lower() == ch.lower()) for p, ch in zip(v, x))


def _decided_exact(v, vec):
    """the answer of MATCH(v, vec, 0) as far as length and `?` alone decide it: a position, '#N/A', or None when
    some cell before the first sure match has v's length without surely matching (its equality hangs on case rules)"""
    if not _simple_pattern(v):
        return None
    for i, x in enumerate(vec, 1):
        if tclass(x) != 's' or len(x) != len(v):
            continue
        if _surely(v, x):
            return i
        return None
    return '#N/A'


def _case_undecided(c):
    """text holding a letter whose case pairing the property does not decide (`ß`: no single-character capital);
    the model follows Python's str.lower() there, ungoverned"""
    toks = [c.get('v', '')] + [x for r in c['arr'] for x in r]
    return any(t.startswith('s:') and t != 's:' and any(n == '223' or int(n) > 255 for n in t[2:].split(','))
               for t in toks)


def _governed_match(v, vec, mt, shape):
    """MATCH(v, vec, mt) is decided by the statement: exact mode always; the approximate modes on data sorted the
    right way and only when the statement leaves one answer ("a position holding the largest value": with
    duplicates of that value the choice among them is the code's, which the model follows ungoverned)"""
    if not _plain_lookup(v):
        return False
    if mt == 0:
        return True
    if mt == 1 and shape in ('asc', 'both'):
        return len(ref_match(v, vec, 1)) == 1
    if mt == -1 and shape in ('desc', 'both'):
        return len(ref_match(v, vec, -1)) == 1
    return False


def _searched(c):
    """the vector the call searches, as Python values"""
    a = _arr(c)
    op = c['op']
    if op == 'match':
        return _vec(c)
    if op == 'vlookup':
        return [r[0] for r in a]
    if op == 'hlookup':
        return list(a[0])
    if op == 'lookup':
        return [r[0] for r in a] if len(a[0]) <= len(a) else list(a[0])
    return []


def governed(c):
    if c.get('shape') == 'malformed':
        return False
    op = c['op']
    if op == 'index':
        return True      # integer arguments
    v = py(c['v'])
    if not _plain_lookup(v):
        return False
    if _case_undecided(c):
        # governed only where length and `?` alone fix the answer of an exact search
        if op == 'match':
            exact = py(c['mt']) == 0 and not isinstance(py(c['mt']), bool)
        else:
            exact = op in ('vlookup', 'hlookup') and not py(c['rl'])
        return exact and _decided_exact(v, _searched(c)) is not None
    vec = _searched(c)
    shape = classify(vec)
    if op == 'match':
        mt = py(c['mt'])
        return mt in (-1, 0, 1) and not isinstance(mt, bool) and _governed_match(v, vec, mt, shape)
    if op in ('vlookup', 'hlookup'):
        k, rl = py(c['k']), py(c['rl'])
        a = _arr(c)
        limit = len(a[0]) if op == 'vlookup' else len(a)
        if k <= 0 or k > limit:
            return True
        return _governed_match(v, vec, 1 if rl else 0, shape)
    return _governed_match(v, vec, 1, shape)      # lookup


def ref_match(v, vec, mt):
    """the linear-scan definition of the statement; for mt = 1 / -1 returns the SET of acceptable answers"""
    if mt == 0:
        for i, x in enumerate(vec, 1):
            if ref_equal(v, x):
                return {i}
        return {'#N/A'}
    kv = okey(v)
    same = [(i, okey(x)) for i, x in enumerate(vec, 1) if tclass(x) == tclass(v)]
    ok = [(i, k) for i, k in same if (k <= kv if mt == 1 else k >= kv)]
    if not ok:
        return {'#N/A'}
    best = max(k for _, k in ok) if mt == 1 else min(k for _, k in ok)
    return {i for i, k in ok if k == best}


def oracles(results):
    """the statement of C16 over implementation outputs only"""
    for r in results:
        c = r.case
        if r.impl.startswith('!'):
            yield c, f'{c["op"]} raised / returned a non-Excel value: {r.impl}'
            continue
        if c.get('shape') == 'malformed':
            continue
        op = c['op']
        top = c.get('via') == 'formula'
        out = [core.dec(t) for t in r.impl.split(' ')] if not r.impl.startswith('a:') else None
        if op in ('match', 'vlookup', 'hlookup') and _simple_pattern(py(c['v'])):
            exact = (py(c['mt']) == 0 and not isinstance(py(c['mt']), bool)) if op == 'match' else \
                (not py(c['rl']) and 0 < py(c['k']) <= (len(c['arr'][0]) if op == 'vlookup' else len(c['arr'])))
            if exact:
                v, vec = py(c['v']), _searched(c)
                pos = out[0] if op == 'match' else pyc.lib_call('match', v, tuple((x,) for x in vec), 0)
                pos = int(pos) if isinstance(pos, (Fraction, int)) and not isinstance(pos, bool) else pos
                if isinstance(pos, int) and isinstance(vec[pos - 1], str) and len(vec[pos - 1]) != len(v):
                    yield c, (f'exact search for {v!r} answers position {pos} holding {vec[pos - 1]!r}: texts of '
                              f'different length ({len(v)} vs {len(vec[pos - 1])} characters) are never equal and `?` is '
                              f'exactly one character')
                sure = next((i for i, x in enumerate(vec, 1) if tclass(x) == 's' and _surely(v, x)), None)
                if sure is not None and not (isinstance(pos, int) and pos <= sure):
                    yield c, (f'exact search for {v!r} answers {pos!r} although cell {sure} = {vec[sure - 1]!r} matches '
                              f'it character by character (`?` = any one character, ASCII letters in either case)')
        if op == 'match':
            v, vec, mt = py(c['v']), _vec(c), py(c['mt'])
            if not governed(c):
                continue
            want = ref_match(v, vec, mt)
            got = out[0]
            got = int(got) if isinstance(got, Fraction) else got
            if got not in want:
                yield c, f'MATCH({v!r}, {vec!r}, {mt}) = {got!r}, the linear-scan definition allows {sorted(want, key=str)}'
        elif op in ('vlookup', 'hlookup'):
            v, k, rl = py(c['v']), py(c['k']), py(c['rl'])
            a = _arr(c)
            limit = len(a[0]) if op == 'vlookup' else len(a)
            got = call(c)
            if not _plain_lookup(v):
                continue
            if k <= 0:
                if got != '#VALUE!':
                    yield c, f'{op.upper()} with index {k} <= 0 gave {got!r}, not #VALUE!'
                continue
            if k > limit:
                if got != '#REF!':
                    yield c, f'{op.upper()} with index {k} > {limit} gave {got!r}, not #REF!'
                continue
            # = INDEX(table, MATCH(v, first column/row, rl), k), all through the implementation
            vec = tuple((row[0],) for row in a) if op == 'vlookup' else (a[0],)
            pos = pyc.lib_call('match', v, vec, 1 if rl else 0)
            if isinstance(pos, str):
                want = pos
            elif op == 'vlookup':
                want = pyc.lib_call('index', a, pos, k)
            else:
                want = pyc.lib_call('index', a, k, pos)
            if not _same_cell(got, want, top):
                yield c, f'{op.upper()} = {got!r} but INDEX at the position MATCH finds ({pos!r}) = {want!r}'
            # transpose law
            other = 'hlookup' if op == 'vlookup' else 'vlookup'
            tgot = pyc.lib_call(other, v, tuple(zip(*a)), k, rl)
            if not _same_cell(got, tgot, top):
                yield c, f'{op.upper()} on the table = {got!r} but {other.upper()} on its transpose = {tgot!r}'
        elif op == 'lookup':
            v = py(c['v'])
            a = _arr(c)
            if not _plain_lookup(v):
                continue
            if len(a[0]) <= len(a):
                vec, res = tuple((row[0],) for row in a), tuple((row[-1],) for row in a)
            else:
                vec, res = (a[0],), (a[-1],)
            if 'rr' in c:
                res = _arr(c, 'rr')
            pos = pyc.lib_call('match', v, vec, 1)
            if isinstance(pos, str):
                want = pos
            elif len(res) == 1:
                want = pyc.lib_call('index', res, 1, pos)
            else:
                want = pyc.lib_call('index', res, pos, 1)
            got = call(c)
            if not _same_cell(got, want, top):
                yield c, f'LOOKUP = {got!r} but INDEX(result vector, MATCH = {pos!r}) = {want!r}'
        elif op == 'index':
            a = _arr(c)
            row = py(c['row'])
            col = py(c['col']) if 'col' in c else None
            got = call(c)
            rows, cols = len(a), len(a[0])
            rr, cc = row or 0, col or 0
            if rr < 0 or cc < 0:
                # a negative index is never a cell (#VALUE!; #REF! is as good for the statement)
                if got not in ('#VALUE!', '#REF!'):
                    yield c, f'INDEX with a negative index gave {got!r}'
            elif rr and cc:
                want = a[rr - 1][cc - 1] if rr <= rows and cc <= cols else '#REF!'
                if not _same_cell(got, want, top):
                    yield c, f'INDEX({rr},{cc}) on {rows}x{cols} gave {got!r}, expected {want!r}'
            elif rr or cc:
                if rows == 1 or cols == 1:
                    flat = [x for r_ in a for x in r_]
                    n = rr or cc
                    want = flat[n - 1] if n <= len(flat) else '#REF!'
                elif rr:
                    want = (a[rr - 1],) if rr <= rows else '#REF!'
                else:
                    want = tuple((r_[cc - 1],) for r_ in a) if cc <= cols else '#REF!'
                if not _same_cell(got, want, top):
                    yield c, f'INDEX({rr},{cc}) on {rows}x{cols} gave {got!r}, expected {want!r}'


def _same_cell(a, b, top=False):
    """top: the call was a whole cell formula, whose blank result is shown as 0 (excelformula.py:951)"""
    if top and b is None:
        b = 0
    return core.enc(a) == core.enc(b)


def finding_key(c, impl_out, model_out):
    return None


def nontrivial(c):
    if c['op'] == 'index':
        return len(c['arr']) * len(c['arr'][0]) >= 2
    n = max(len(c['arr']), len(c['arr'][0]))
    return n >= 2 and not c['v'].startswith('e:')


def bucket(c):
    if c.get('shape') == 'malformed':
        return 'malformed'
    if c.get('via') == 'formula':
        return 'formula'
    op = c['op']
    if op == 'match':
        mt = py(c['mt'])
        if mt == 0:
            v = py(c['v'])
            return 'match:exact-wild' if isinstance(v, str) and has_wild(v) else 'match:exact'
        if c['shape'] == 'interior':
            return 'match:interior-blank'
        if mt == 1 and c['shape'] in ('asc', 'both'):
            return 'match:asc-sorted'
        if mt == -1 and c['shape'] in ('desc', 'both'):
            return 'match:desc-sorted'
        return 'match:unsorted'
    if op in ('vlookup', 'hlookup'):
        k = py(c['k'])
        limit = len(c['arr'][0]) if op == 'vlookup' else len(c['arr'])
        return op + (':out-of-range' if (k <= 0 or k > limit) else '')
    if op == 'index':
        row = py(c['row']) or 0
        col = (py(c['col']) if 'col' in c else 0) or 0
        if row < 0 or col < 0 or row > len(c['arr']) or col > len(c['arr'][0]):
            return 'index:out-of-range'
        return 'index'
    return 'lookup'

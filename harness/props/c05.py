"""C05 — a cell has one value, however and in whatever order it is reached.  DESIGN.md §7 C05.

Two kinds of case.

(1) engine case: one workbook (nodes in topological order; every grid cell is a node, blank cells are blank inputs;
    every range that is evaluated or referenced is a range node) + one configuration + one history of operations:

    {'cfg': 'nodata' | 'file' | 'xlsx',
     'nodes': [['I', addr, valtok] | ['F', addr, kind, args] | ['R', range_addr, rows, cols, [member nodes]]],
     'ops':  [['S', node, valtok] | ['E', path] | ['M', 'l'|'t'|'g', [path…]]],
     'absent': [node…]   (optional) blank input nodes that are NOT written into the workbook (outside the used area)
     'spell': {range node: 'A:A'} (optional) formulas write that range as the unbounded address
     'tag': family, 'perm': k (optional: the first k ops are a permutation of first evaluations, the rest is a fixed read-out)}
    path: ['c', node, sheetless] | ['r', node, sheetless] | ['u', sheet, c1, r1, c2, r2, sheetless]   (0 = unbounded)

    cfg nodata = in-memory openpyxl workbook; file = the same workbook saved by openpyxl and compiled from the .xlsx
    (no stored results); xlsx = .xlsx with stored results (harness/xlsxwriter_min.py).

(3) extent case: {'kind': 'extent', 'data': sheet holding a column of numbers, 'k': rows, 'blank': [col, row] beyond the
    used area of that sheet, 'form': 'col'|'row', 'via': 'eval'|'countif', 'order': 'blank-first'|'unbounded-first'}: the
    number of cells of `<data>!A:A` / `<data>!1:1` seen directly or as COUNTIF(r,"<>9")+COUNTIF(r,9) from the other
    sheet, after the blank cell was read first / second.  Model: the clip.
(4) raw case (oracle only — the Lean model has no CSE arrays): {'kind': 'raw', 'cells': {...}, 'arrays': {top: [ref, f]},
    'order': [addresses evaluated first], 'read': [addresses read afterwards]}: workbooks with CSE array formulas whose
    precedents are plain cells calling array-context-sensitive functions; every order must read the values a fresh
    compiler gives each address on its own.
(5) tbl case (oracle only — structured references are not in the Lean model): {'kind': 'tbl', 'form': k, 'geom': [c0, r0],
    'vals': [[qty, price]…], 'order': [targets], 'pre': optional [c0, r0, vals] of ANOTHER workbook (same sheet name, same
    formula texts, other geometry and values) that is compiled and evaluated first in the same process, 'fresh': 0|1}:
    an Excel table `Sales` whose calculated column holds the SAME formula text in every row, with a position-dependent
    meaning ([@Col], Sales[@Col], [#This Row], Sales[Col], ROW()/COLUMN(), a defined name).  Every first-evaluation
    order must read the values of the A1-spelled twin workbook (texts differ per cell there), a fresh compiler per cell
    must give the same before and after, and the other workbook must not leak into this one.
(2) clip case: {'kind': 'clip', 'u': [c1, r1, c2, r2], 'mc': max_col, 'mr': max_row}: the rectangle an unbounded
    address covers on a sheet whose used area is (1,1,mc,mr), read off the shape of `evaluate`'s result.

`impl` drives the REAL ExcelCompiler; `model_lines` sends the same workbook, its layout (cell/range tables, used areas)
and the history to the Lean driver.  `oracles` restates the property on the implementation alone: every element of
every result must equal `evaluate(cell)` on a FRESH compiler holding the current inputs, and all permutations of the
first-evaluation order of one workbook must produce the same read-out.
"""
import atexit
import itertools
import json
import os
import re
import shutil
import tempfile

from harness import core, pyc
from harness import xlsxwriter_min as xw

ID = 'C05'
LEAN_MODULE = 'Pycel.Props.C05'
NS = 'Pycel.Access.'
THEOREMS = [NS + t for t in (
    'C05_order', 'C05_order_perm', 'C05_order_outputs', 'C05_order_outputs_perm', 'C05_built_irrelevant',
    'C05_order_monotone', 'C05_order_with_writes', 'C05_configurations',
    'C05_repeat', 'C05_repeat_value', 'C05_repeat_later', 'C05_repeat_path',
    'C05_path_coherence', 'C05_path_order', 'C05_path_outputs', 'C05_range_elem', 'C05_range_value',
    'C05_trim_shapes', 'C05_trim_elem',
    'C05_unbounded_cells', 'C05_clip_is_inter_cols', 'C05_clip_is_inter_rows', 'C05_unbounded_elem', 'C05_list', 'C05_sheetless_cell', 'C05_sheetless_range',
    'C05_inst_hyps', 'C05_inst_path_coherence')]
DESIGN_REF = 'DESIGN.md §7 C05'
RULE = ('deterministic core: ALL permutations of the first-evaluation order of fixed workbooks of 4-6 cells (ranges, a '
        'nested range, cross-sheet references, formulas over unbounded A:A / 1:1 spellings), each followed by a read-out '
        'through every access path (each cell, each enclosing range, whole-column / whole-row forms, list, tuple, '
        'generator, sheet-less spellings, repeated evaluate); all permutations x all positions of one set_value on a '
        '4-cell chain (in-memory and .xlsx with stored results); permutations of mixed first-evaluation paths; the clip '
        'of every unbounded address on small used areas; a blank cell beyond the used area read before / after the first '
        'unbounded access on the active and on a non-active sheet, directly and through COUNTIF over Sheet!A:A / 1:1; CSE '
        'array formulas over plain cells calling IFERROR/IFNA/IFS/IF/ROW/COLUMN/INDEX on ranges in all 24 first-evaluation '
        'orders of {plain cell, array members, array range} (oracle only); table workbooks whose calculated column holds one '
        'formula text with position-dependent meaning (11 forms x 2 geometries x 10 first-evaluation orders, with and '
        'without another same-named workbook compiled first; oracle only, against the A1-spelled twin).  Random: DAG workbooks of 2-14 cells on one or two sheets with '
        'histories of 3-20 evaluations by random paths (8% set_value).  Configurations: in-memory, openpyxl-saved file, '
        '.xlsx with stored results.  A case is non-trivial when a formula or range node is reached by two different '
        'paths or in an order that is not the topological one.')
ASSUMPTIONS = [
    'non-iterative mode; acyclic workbooks; formula language of the C01 correspondence (=ref, &, +, SUM, COUNT, INDEX)',
    'range paths are evaluated inside the grid of cells that exist in the workbook; single blank cells beyond the used '
    'area are read too (30% of the random workbooks)',
    'the row edge (used area reaching row 1048576) is executed in full (a million cells) once, in the thorough tier; '
    'the quick tier runs its clipping step (address & used area) and the XFD column edge in full',
    'table workbooks with structured references / ROW() / COLUMN() / a defined name in identical formula texts are '
    'oracle-only as well (the Lean model has no structured references): order oracle + A1-spelled twin workbook + fresh '
    'compiler per cell before and after + another workbook of the same sheet name compiled in between; R1C1 formula '
    'text in a cell is not accepted by any loader path of pycel (AttributeError) and is not generated',
    'CSE array workbooks are compared by the implementation-only order oracle (fresh compiler per address); the Lean '
    'engine model has no CSE arrays, so there is no model output for that family',
    'nested lists of addresses are not generated (the code maps recursively; the model has flat lists)',
]
TRUSTED = ['modelled, not verified: openpyxl (max_row/max_column, save/load), networkx, the concrete formula evaluator']
REQUIRED_BUCKETS = ['extent', 'cse', 'sametext', 'absent:nodata', 'perm:nodata', 'perm:file', 'perm:xlsx', 'permset:nodata', 'permset:xlsx', 'permpath:nodata',
                    'clip', 'rand:nodata', 'rand:file', 'rand:xlsx']
EXHAUSTIVE = False
EXPLANATION = ('theorems: generic engine + access paths, all workbooks / orders / rectangles; correspondence: real '
               'ExcelCompiler vs compiled model per operation; implementation-only oracles: element-wise agreement with '
               'evaluate(cell) on a fresh compiler, equality of the read-out over all permutations')

TMP = tempfile.mkdtemp(prefix='c05-')
atexit.register(shutil.rmtree, TMP, ignore_errors=True)
_FRESH_MEMO = {}
_ORACLE = {}          # case key -> list of (op index, text) failures found while running impl
_FILES = {}
MAX_COL = 16384
MAX_ROW = 1048576

SHEETS = ['Sheet1', 'Data 2']


# ---------------------------------------------------------------------------------------------------------------
# addresses

def colname(c):
    s = ''
    while c:
        c, r = divmod(c - 1, 26)
        s = chr(65 + r) + s
    return s


def colnum(s):
    n = 0
    for ch in s:
        n = n * 26 + ord(ch) - 64
    return n


def sheet_q(s):
    return f"'{s}'" if ' ' in s else s


def split_addr(addr):
    """'Sheet1!A1' | "'Data 2'!A1:B2" -> (sheet, c1, r1, c2, r2)"""
    sheet, _, coord = addr.rpartition('!')
    if sheet.startswith("'"):
        sheet = sheet[1:-1]
    m = re.fullmatch(r'([A-Z]+)(\d+)(?::([A-Z]+)(\d+))?', coord)
    c1, r1 = colnum(m.group(1)), int(m.group(2))
    c2, r2 = (colnum(m.group(3)), int(m.group(4))) if m.group(3) else (c1, r1)
    return sheet, c1, r1, c2, r2


def cell_addr(sheet, c, r):
    return f'{sheet_q(sheet)}!{colname(c)}{r}'


def range_addr(sheet, c1, r1, c2, r2):
    return f'{sheet_q(sheet)}!{colname(c1)}{r1}:{colname(c2)}{r2}'


def unbounded_coord(c1, r1, c2, r2):
    return f'{colname(c1)}:{colname(c2)}' if r1 == 0 else f'{r1}:{r2}'


def path_text(case, p):
    nodes = case['nodes']
    if p[0] in ('c', 'r'):
        a = nodes[p[1]][1]
        return a.rpartition('!')[2] if p[2] else a
    _, sheet, c1, r1, c2, r2, sheetless = p
    coord = unbounded_coord(c1, r1, c2, r2)
    return coord if sheetless else f'{sheet_q(sheet)}!{coord}'


def _py(tok):
    v = core.dec(tok)
    from fractions import Fraction
    if isinstance(v, Fraction):
        return int(v) if v.denominator == 1 else float(v)
    return v


def _tok(v):
    return core.enc_text(v) if isinstance(v, str) else core.enc(v)


# ---------------------------------------------------------------------------------------------------------------
# workbook description -> Excel cells

def ref_text(case, j, sheet):
    nodes = case['nodes']
    spell = (case.get('spell') or {}).get(str(j))
    a = nodes[j][1]
    s = split_addr(a)[0]
    if spell:
        return spell if s == sheet else f'{sheet_q(s)}!{spell}'
    if s == sheet and j % 2 == 1:
        return a.rpartition('!')[2]
    return a


def formula_of(case, i):
    n = case['nodes'][i]
    sheet = split_addr(n[1])[0]
    kind, args = n[2], n[3]
    ref = lambda j: ref_text(case, j, sheet)   # noqa
    if kind == 'ref':
        return '=' + ref(args[0])
    if kind == 'cat':
        return '=' + '&"|"&'.join(ref(j) for j in args) + '&"|"'
    if kind == 'add':
        return f'={ref(args[0])}+{ref(args[1])}'
    if kind == 'sum':
        return '=SUM(' + ','.join(ref(j) for j in args) + ')'
    if kind == 'cnt':
        return '=COUNT(' + ','.join(ref(j) for j in args) + ')'
    if kind == 'idx':
        return f'=INDEX({ref(args[0])},{args[1]},{args[2]})'
    raise ValueError(kind)


def cells_of(case, inputs=None):
    """{'Sheet!A1': value | '=formula'}; `inputs` overrides the value of input nodes; absent nodes are left out"""
    cells = {}
    absent = set(case.get('absent') or ())
    for i, n in enumerate(case['nodes']):
        if i in absent:
            continue
        if n[0] == 'I':
            cells[n[1]] = inputs[i] if inputs and i in inputs else _py(n[2])
        elif n[0] == 'F':
            cells[n[1]] = formula_of(case, i)
    # the first sheet created is the active sheet: make sure it is Sheet1
    return dict(sorted(cells.items(), key=lambda kv: (SHEETS.index(split_addr(kv[0])[0]),)))


def used_areas(case):
    """sheet -> (max_col, max_row) as openpyxl reports it for this configuration (model side; the model's `used`)"""
    absent = set(case.get('absent') or ())
    out = {}
    for i, n in enumerate(case['nodes']):
        if n[0] == 'R' or i in absent:
            continue
        if case['cfg'] != 'nodata' and n[0] == 'I' and n[2] == 'z':
            continue                      # a saved file does not keep empty cells
        s, c, r, _, _ = split_addr(n[1])
        mc, mr = out.get(s, (1, 1))
        out[s] = (max(mc, c), max(mr, r))
    for i, n in enumerate(case['nodes']):
        if n[0] != 'R':
            out.setdefault(split_addr(n[1])[0], (1, 1))
    return out


def clip(u, mc, mr):
    """the property's clip of an unbounded (c1, r1, c2, r2) to the used area (1,1,mc,mr); None when empty"""
    c1, r1, c2, r2 = u
    if r1 == 0:
        return (c1, 1, min(c2, mc), mr) if c1 <= mc and mr >= 1 else None
    return (1, r1, mc, min(r2, mr)) if r1 <= mr and mc >= 1 else None


# ---------------------------------------------------------------------------------------------------------------
# implementation side

def _compiler(case, inputs=None, cfg=None):
    from pycel import ExcelCompiler
    cfg = cfg or case['cfg']
    cells = cells_of(case, inputs)
    if cfg == 'nodata':
        return pyc.compiler_from(cells)
    key = (cfg, json.dumps(case['nodes']), json.dumps(case.get('spell'), sort_keys=True),
           json.dumps(case.get('absent')), json.dumps(sorted((inputs or {}).items()), default=str))
    if key not in _FILES:
        if len(_FILES) > 400:
            for p in _FILES.values():
                try:
                    os.unlink(p)
                except OSError:
                    pass
            _FILES.clear()
        path = os.path.join(TMP, f'wb{os.getpid()}-{len(_FILES)}-{abs(hash(key)) % 10**8}.xlsx')
        if cfg == 'file':
            pyc.compiler_from(cells).excel.workbook.save(path)
        else:
            xw.write_xlsx(path, cells, xw.stored_results(cells, pyc.compiler_from(cells)))
        _FILES[key] = path
    return ExcelCompiler(filename=_FILES[key])


def enc_out(v):
    """result of evaluate(one address), by its Python shape"""
    if isinstance(v, tuple):
        if v and isinstance(v[0], tuple):
            return ' '.join([f'g:{len(v)}:{len(v[0])}'] + [core.enc(x) for row in v for x in row])
        return ' '.join([f'v:{len(v)}'] + [core.enc(x) for x in v])
    if isinstance(v, list):
        return '!list'
    return core.enc(v)


def enc_many(v):
    if isinstance(v, list):
        return 'L{ ' + ' , '.join(enc_out(x) for x in v) + ' }'
    if isinstance(v, tuple):
        return 'T{ ' + ' , '.join(enc_out(x) for x in v) + ' }'
    return '!not-a-sequence'


def fresh_value(case, inputs, i):
    """evaluate(cell i) on a from-scratch in-memory compile holding the current inputs (one compiler per cell)"""
    k = (json.dumps(case['nodes']), json.dumps(case.get('spell'), sort_keys=True), json.dumps(case.get('absent')),
         tuple(sorted((a, repr(b)) for a, b in inputs.items())), i)
    if k not in _FRESH_MEMO:
        if len(_FRESH_MEMO) > 300000:
            _FRESH_MEMO.clear()
        try:
            comp = _compiler(case, inputs, cfg='nodata')
            _FRESH_MEMO[k] = core.enc(comp.evaluate(case['nodes'][i][1]))
        except Exception as exc:   # noqa
            _FRESH_MEMO[k] = core.canon_exc(exc)
    return _FRESH_MEMO[k]


def path_cells(case, p, used):
    """-> (rows, cols, [node of each element, row-major]) the cells a path's result must agree with; None = no claim"""
    nodes = case['nodes']
    if p[0] == 'c':
        return 1, 1, [p[1]]
    if p[0] == 'r':
        n = nodes[p[1]]
        return n[2], n[3], list(n[4])
    _, sheet, c1, r1, c2, r2, _ = p
    mc, mr = used.get(sheet, (1, 1))
    box = clip((c1, r1, c2, r2), mc, mr)
    if box is None:
        return None
    index = _cell_index(case)
    b1, q1, b2, q2 = box
    members = [index.get((sheet, c, r)) for r in range(q1, q2 + 1) for c in range(b1, b2 + 1)]
    if any(m is None for m in members):
        return None
    return q2 - q1 + 1, b2 - b1 + 1, members


_INDEX_MEMO = {}


def _cell_index(case):
    k = id(case['nodes'])
    hit = _INDEX_MEMO.get(k)
    if hit is None or hit[0] is not case['nodes']:
        if len(_INDEX_MEMO) > 5000:
            _INDEX_MEMO.clear()
        idx = {}
        for i, n in enumerate(case['nodes']):
            if n[0] != 'R':
                s, c, r, _, _ = split_addr(n[1])
                idx[(s, c, r)] = i
        hit = _INDEX_MEMO[k] = (case['nodes'], idx)
    return hit[1]


def split_out(item):
    """encoded result of one address -> (rows, cols, [element tokens]) ; None if it is an exception / malformed"""
    if item.startswith('!'):
        return None
    toks = item.split(' ')
    if toks[0].startswith('g:'):
        _, r, c = toks[0].split(':')
        return int(r), int(c), toks[1:]
    if toks[0].startswith('v:'):
        return None, int(toks[0][2:]), toks[1:]
    return 1, 1, toks


def check_item(case, p, item, inputs, used):
    """implementation-only: each element of `item` (result of path p) equals evaluate(cell) on a fresh compiler"""
    want = path_cells(case, p, used)
    if want is None:
        return None
    rows, cols, members = want
    got = split_out(item)
    if got is None:
        return f'evaluate({path_text(case, p)}) -> {item[:60]}'
    grows, gcols, toks = got
    # the trimmed shape the property's reading convention expects
    if rows == 1 and cols == 1:
        shape_ok = grows == 1 and gcols == 1
    elif rows == 1 or cols == 1:
        shape_ok = grows is None and gcols == rows * cols
    else:
        shape_ok = grows == rows and gcols == cols
    if not shape_ok or len(toks) != len(members):
        return f'evaluate({path_text(case, p)}) has shape {grows}x{gcols}, the addressed cells are {rows}x{cols}'
    for t, m in zip(toks, members):
        f = fresh_value(case, inputs, m)
        if t != f:
            return (f'element {case["nodes"][m][1]} of evaluate({path_text(case, p)}) = {core.show(t)} but '
                    f'evaluate({case["nodes"][m][1]}) on a fresh compiler = {core.show(f)}')
    return None


def split_many(s):
    body = s[3:-2]
    return body.split(' , ') if body.strip() else []


def impl(case):
    if case.get('kind') == 'clip':
        return impl_clip(case)
    if case.get('kind') == 'extent':
        return impl_extent(case)
    if case.get('kind') == 'raw':
        return impl_raw(case)
    if case.get('kind') == 'tbl':
        return impl_tbl(case)
    nodes = case['nodes']
    key = json.dumps(case, sort_keys=True)
    comp = _compiler(case)
    used = used_areas(case)
    inputs = {}
    out, fails = [], []
    for k, op in enumerate(case['ops']):
        if op[0] == 'S':
            v = _py(op[2])
            try:
                comp.set_value(nodes[op[1]][1], v)
                inputs[op[1]] = v
                out.append('ok')
            except AssertionError:
                out.append('rej')
            except Exception as exc:   # noqa
                out.append(core.canon_exc(exc))
            continue
        try:
            if op[0] == 'E':
                item = enc_out(comp.evaluate(path_text(case, op[1])))
            else:
                texts = [path_text(case, p) for p in op[2]]
                arg = texts if op[1] == 'l' else tuple(texts) if op[1] == 't' else (t for t in texts)
                item = enc_many(comp.evaluate(arg))
        except RecursionError as exc:
            item = core.canon_exc(exc)
        except Exception as exc:   # noqa
            item = core.canon_exc(exc)
        out.append(item)
        if op[0] == 'E':
            msg = check_item(case, op[1], item, inputs, used)
        else:
            msg = None
            want_open = 'L{ ' if op[1] == 'l' else 'T{ '
            if not item.startswith(want_open):
                msg = f'evaluate({op[1]}-sequence) -> {item[:60]}'
            else:
                parts = split_many(item)
                if len(parts) != len(op[2]):
                    msg = f'evaluate(sequence of {len(op[2])}) returned {len(parts)} items'
                else:
                    for p, part in zip(op[2], parts):
                        msg = check_item(case, p, part, inputs, used)
                        if msg:
                            break
        if msg:
            fails.append((k, msg))
    _ORACLE[key] = fails
    return ';'.join(out)


def impl_clip(case):
    """the trimmed shape of `evaluate(unbounded)` on a sheet whose used area is (1,1,mc,mr); with level 'addr' only the
    clipping step of ExcelOpxWrapper.get_range (`address & used area`) is run (the row-1048576 edge in the quick tier)"""
    c1, r1, c2, r2 = case['u']
    mc, mr = case['mc'], case['mr']
    if case.get('level') == 'addr':
        from pycel.excelutil import AddressRange
        a = AddressRange('Sheet1!' + unbounded_coord(c1, r1, c2, r2)) & AddressRange((1, 1, mc, mr), sheet='Sheet1')
        if isinstance(a, str):
            raise ValueError(a)
        h, w = a.size
        return 'sc' if (h, w) == (1, 1) else f'v:{h * w}' if 1 in (h, w) else f'g:{h}:{w}'
    cells = {cell_addr('Sheet1', mc, mr): 7}
    if (mc, mr) != (1, 1):
        cells['Sheet1!A1'] = 1
    comp = pyc.compiler_from(cells)
    v = comp.evaluate('Sheet1!' + unbounded_coord(c1, r1, c2, r2))
    last = v
    while isinstance(last, tuple):
        last = last[-1]
    if case.get('last') and last != 7:
        return f'!last-cell-missing:{core.enc(last)}'
    shape = _shape(v)
    del v, comp
    return shape


def clip_shape(case):
    box = clip(case['u'], case['mc'], case['mr'])
    if box is None:
        return 'none'
    rows, cols = box[3] - box[1] + 1, box[2] - box[0] + 1
    if rows == 1 and cols == 1:
        return 'sc'
    if rows == 1 or cols == 1:
        return f'v:{rows * cols}'
    return f'g:{rows}:{cols}'



# ---------------------------------------------------------------------------------------------------------------
# extent family: a blank cell beyond the used area is read before / after the first unbounded access of its sheet

def _shape(v):
    if isinstance(v, tuple) and v and isinstance(v[0], tuple):
        return f'g:{len(v)}:{len(v[0])}'
    if isinstance(v, tuple):
        return f'v:{len(v)}'
    return 'sc'


def extent_geometry(case):
    """-> (unbounded tuple, max_col, max_row) of the data sheet"""
    k = case['k']
    u = (1, 0, 1, 0) if case['form'] == 'col' else (0, 1, 0, 1)
    return u, 2, k


def impl_extent(case):
    import openpyxl
    from pycel import ExcelCompiler
    data, k = case['data'], case['k']
    other = 'Data 2' if data == 'Sheet1' else 'Sheet1'
    wb = openpyxl.Workbook()
    first = wb.active
    first.title = 'Sheet1'                       # the active sheet
    second = wb.create_sheet('Data 2')
    ws = {'Sheet1': first, 'Data 2': second}
    for r in range(1, k + 1):
        ws[data][f'A{r}'] = 9 if r == 2 else r
    ws[data][f'B{k}'] = 9                        # used area (1,1,2,k)
    rng = f'{sheet_q(data)}!' + ('A:A' if case['form'] == 'col' else '1:1')
    ws[other]['A1'] = f'=COUNTIF({rng},"<>9")'
    ws[other]['A2'] = f'=COUNTIF({rng},9)'
    comp = ExcelCompiler(excel=wb)
    blank = cell_addr(data, *case['blank'])

    def target():
        if case['via'] == 'eval':
            return _shape(comp.evaluate(rng))
        a = comp.evaluate(cell_addr(other, 1, 1))
        b = comp.evaluate(cell_addr(other, 1, 2))
        n = a + b
        return 'sc' if n == 1 else f'v:{n}'
    if case['order'] == 'blank-first':
        comp.evaluate(blank)
        seen = [target()]
    else:
        seen = [target()]
        comp.evaluate(blank)
        seen += [target(), _shape(comp.evaluate(rng))]
    return seen[0] if len(set(seen)) == 1 else '->'.join(seen)


def extent_cases(tier):
    for data in ('Sheet1', 'Data 2'):
        for form in ('col', 'row'):
            for via in ('eval', 'countif'):
                for order in ('blank-first', 'unbounded-first'):
                    for blank in ([1, 6], [4, 1], [3, 5]):
                        yield {'kind': 'extent', 'data': data, 'k': 3, 'blank': blank, 'form': form, 'via': via,
                               'order': order}


# ---------------------------------------------------------------------------------------------------------------
# raw family (oracle only): CSE array formulas over plain cells that call array-context-sensitive functions

_RAW_FRESH = {}


def _raw_compiler(case):
    import openpyxl
    from openpyxl.worksheet.formula import ArrayFormula
    from pycel import ExcelCompiler
    wb = openpyxl.Workbook()
    sheets = {}
    items = [(a, v, None) for a, v in case['cells'].items()] + [(a, f, ref) for a, (ref, f) in case['arrays'].items()]
    for addr, v, ref in sorted(items, key=lambda t: SHEETS.index(split_addr(t[0])[0])):
        s, c, r, _, _ = split_addr(addr)
        if s not in sheets:
            if not sheets:
                sheets[s] = wb.active
                sheets[s].title = s
            else:
                sheets[s] = wb.create_sheet(s)
        sheets[s][f'{colname(c)}{r}'] = ArrayFormula(ref, v) if ref else v
    if case.get('file'):
        path = os.path.join(TMP, f'raw{os.getpid()}-{abs(hash(json.dumps([case["cells"], case["arrays"]]))) % 10**9}.xlsx')
        if not os.path.exists(path):
            wb.save(path)
        return ExcelCompiler(filename=path)
    return ExcelCompiler(excel=wb)


def _raw_eval(comp, addr):
    try:
        return enc_out(comp.evaluate(addr))
    except RecursionError as exc:
        return core.canon_exc(exc)
    except Exception as exc:   # noqa
        return core.canon_exc(exc)


def raw_fresh(case, addr):
    k = (json.dumps(case['cells'], sort_keys=True), json.dumps(case['arrays'], sort_keys=True), bool(case.get('file')),
         addr)
    if k not in _RAW_FRESH:
        _RAW_FRESH[k] = _raw_eval(_raw_compiler(case), addr)
    return _RAW_FRESH[k]


def impl_raw(case):
    comp = _raw_compiler(case)
    for a in case['order']:
        _raw_eval(comp, a)
    outs = [_raw_eval(comp, a) for a in case['read']]
    fails = []
    for a, o in zip(case['read'], outs):
        f = raw_fresh(case, a)
        if o != f:
            fails.append((0, f'after first evaluating {case["order"]}, evaluate({a}) = {core.show(o)} but a fresh '
                             f'compiler that evaluates {a} first gives {core.show(f)}'))
            break
    _ORACLE[json.dumps(case, sort_keys=True)] = fails
    return ';'.join(outs)


PLAIN_FORMS = ['IFERROR(B1:B3,99)', 'IFNA(B1:B3,5)', 'IFS(B1:B3>5,1,TRUE,0)', 'IF(B1:B3>5,1,0)', 'ROW(B1:B3)',
               'COLUMN(B1:C1)', 'B1:B3', 'SUM(B1:B3)', 'INDEX(B1:B3,2)', 'IFERROR(1/B1:B3,0)']
ARRAY_FORMS = ['=C1+D1:D2', '=IF(D1:D2>1,C1,0)', '=C1:C1*D1:D2']


def cse_cases(tier):
    thorough = tier == 'thorough'
    for pi, plain in enumerate(PLAIN_FORMS):
        for ai, arr in enumerate(ARRAY_FORMS):
            cells = {'Sheet1!B1': 7, 'Sheet1!B2': 0, 'Sheet1!B3': 6, 'Sheet1!C1': '=' + plain, 'Sheet1!D1': 1,
                     'Sheet1!D2': 2, 'Sheet1!F1': '=C1+1'}
            arrays = {'Sheet1!E1': ['E1:E2', arr]}
            targets = ['Sheet1!C1', 'Sheet1!E1', 'Sheet1!E2', 'Sheet1!E1:E2']
            read = ['Sheet1!C1', 'Sheet1!E1', 'Sheet1!E2', 'Sheet1!F1', 'Sheet1!E1:E2']
            perms = list(itertools.permutations(targets))
            if not thorough and ai:
                perms = [p for p in perms if p[0] != 'Sheet1!C1'][(pi + ai) % 3::3]
            for p in perms:
                for file in ((False, True) if thorough and ai == 0 else (False,)):
                    c = {'kind': 'raw', 'tag': 'cse', 'cells': cells, 'arrays': arrays, 'order': list(p), 'read': read}
                    if file:
                        c['file'] = 1
                    yield c
    # a second array over a member of the first, a plain cell between them, and a cross-sheet operand
    cells = {'Sheet1!B1': 7, 'Sheet1!B2': 0, 'Sheet1!B3': 6, 'Sheet1!C1': '=IFERROR(B1:B3,99)', 'Sheet1!C2': '=C1+1',
             'Sheet1!D1': 1, 'Sheet1!D2': 2, "'Data 2'!A1": '=IFNA(Sheet1!B1:B3,5)'}
    arrays = {'Sheet1!E1': ['E1:E2', "=C2+D1:D2+'Data 2'!A1"], 'Sheet1!G1': ['G1:G2', '=E1:E2*2']}
    targets = ['Sheet1!C1', 'Sheet1!C2', "'Data 2'!A1", 'Sheet1!E2', 'Sheet1!G1:G2']
    read = ['Sheet1!C1', 'Sheet1!C2', "'Data 2'!A1", 'Sheet1!E1', 'Sheet1!E2', 'Sheet1!G1', 'Sheet1!G2',
            'Sheet1!G1:G2']
    for p in itertools.permutations(targets):
        yield {'kind': 'raw', 'tag': 'cse', 'cells': cells, 'arrays': arrays, 'order': list(p), 'read': read}



# ---------------------------------------------------------------------------------------------------------------
# tbl family (oracle only): one formula text in every row of a table column, position-dependent meaning

def _tbl_forms():
    L = colname
    return [
        ('=[@Qty]*[@Price]', lambda c, r0, r, n: f'={L(c)}{r}*{L(c + 1)}{r}'),
        ('=Sales[@Qty]*Sales[@Price]', lambda c, r0, r, n: f'={L(c)}{r}*{L(c + 1)}{r}'),
        ('=Sales[[#This Row],[Qty]]*2', lambda c, r0, r, n: f'={L(c)}{r}*2'),
        ('=SUM(Sales[Qty])', lambda c, r0, r, n: f'=SUM({L(c)}{r0 + 1}:{L(c)}{r0 + n})'),
        ('=SUM([Price])', lambda c, r0, r, n: f'=SUM({L(c + 1)}{r0 + 1}:{L(c + 1)}{r0 + n})'),
        ('=ROW()*2', lambda c, r0, r, n: f'={r}*2'),
        ('=ROW()+COLUMN()', lambda c, r0, r, n: f'={r}+{c + 2}'),
        ('=[@Qty]&"x"', lambda c, r0, r, n: f'={L(c)}{r}&"x"'),
        ('=COUNT(Sales[[#This Row],[Qty]:[Price]])', lambda c, r0, r, n: f'=COUNT({L(c)}{r}:{L(c + 1)}{r})'),
        ('=INDEX(Sales[Price],ROW()-%d)', lambda c, r0, r, n: f'=INDEX({L(c + 1)}{r0 + 1}:{L(c + 1)}{r0 + n},{r}-{r0})'),
        ('=rate*[@Qty]', lambda c, r0, r, n: f'={L(c + 4)}{r0}*{L(c)}{r}'),
    ]


TBL_FORMS = _tbl_forms()
_TBL_FILES = {}
_TBL_FRESH = {}


def _tbl_text(form, r0):
    t = TBL_FORMS[form][0]
    return t % r0 if '%d' in t else t


def tbl_addrs(c0, r0, n):
    total = [cell_addr('Sheet1', c0 + 2, r0 + i) for i in range(1, n + 1)]
    return total, cell_addr('Sheet1', c0 + 5, r0), range_addr('Sheet1', c0 + 2, r0 + 1, c0 + 2, r0 + n)


def _tbl_file(form, c0, r0, vals):
    """the table workbook, saved once (openpyxl fills in the table columns on save) -> path"""
    key = (form, c0, r0, json.dumps(vals))
    if key not in _TBL_FILES:
        import openpyxl
        from openpyxl.worksheet.table import Table
        from openpyxl.workbook.defined_name import DefinedName
        wb = openpyxl.Workbook()
        ws = wb.active
        ws.title = 'Sheet1'
        for j, h in enumerate(['Qty', 'Price', 'Total']):
            ws.cell(r0, c0 + j, h)
        for i, (q, p) in enumerate(vals, start=1):
            ws.cell(r0 + i, c0, q)
            ws.cell(r0 + i, c0 + 1, p)
            ws.cell(r0 + i, c0 + 2, _tbl_text(form, r0))
        n = len(vals)
        ws.add_table(Table(displayName='Sales', ref=f'{colname(c0)}{r0}:{colname(c0 + 2)}{r0 + n}'))
        ws.cell(r0, c0 + 4, 3 + c0)                                   # the cell the name `rate` points to
        wb.defined_names['rate'] = DefinedName('rate', attr_text=f'Sheet1!${colname(c0 + 4)}${r0}')
        ws.cell(r0, c0 + 5, '=SUM(Sales[Total])')                     # a dependant of the whole column
        path = os.path.join(TMP, f'tbl{os.getpid()}-{len(_TBL_FILES)}.xlsx')
        wb.save(path)
        _TBL_FILES[key] = path
    return _TBL_FILES[key]


def _tbl_twin(form, c0, r0, vals):
    """the same workbook spelled with A1 references: every cell has its own text -> expected read-out"""
    n = len(vals)
    cells = {}
    for i, (q, p) in enumerate(vals, start=1):
        cells[cell_addr('Sheet1', c0, r0 + i)] = q
        cells[cell_addr('Sheet1', c0 + 1, r0 + i)] = p
        cells[cell_addr('Sheet1', c0 + 2, r0 + i)] = TBL_FORMS[form][1](c0, r0, r0 + i, n)
    cells[cell_addr('Sheet1', c0 + 4, r0)] = 3 + c0
    total, dep, rng_ = tbl_addrs(c0, r0, n)
    cells[dep] = f'=SUM({rng_.rpartition("!")[2]})'
    return [_raw_eval(pyc.compiler_from(dict(cells)), a) for a in total + [dep]]


def _tbl_run(form, c0, r0, vals, order):
    from pycel import ExcelCompiler
    comp = ExcelCompiler(filename=_tbl_file(form, c0, r0, vals))
    total, dep, rng_ = tbl_addrs(c0, r0, len(vals))
    for t in order:
        if t == 'range':
            _raw_eval(comp, rng_)
        elif t == 'dep':
            _raw_eval(comp, dep)
        elif t == 'list':
            try:
                comp.evaluate(list(reversed(total)))
            except Exception:   # noqa
                pass
        else:
            _raw_eval(comp, total[t])
    return [_raw_eval(comp, a) for a in total + [dep]]


def _tbl_fresh_per_cell(form, c0, r0, vals):
    from pycel import ExcelCompiler
    total, dep, _ = tbl_addrs(c0, r0, len(vals))
    path = _tbl_file(form, c0, r0, vals)
    return [_raw_eval(ExcelCompiler(filename=path), a) for a in total + [dep]]


_TBL2_FILES = {}


def _tbl2_file(c0, r0, vals):
    """one workbook, two sheets, a table at the SAME coordinates on each (columns in the other order on sheet Two),
    the same formula text =[@Qty]*2 in every row of both Total columns"""
    key = (c0, r0, json.dumps(vals))
    if key not in _TBL2_FILES:
        import openpyxl
        from openpyxl.worksheet.table import Table
        wb = openpyxl.Workbook()
        one = wb.active
        one.title = 'One'
        two = wb.create_sheet('Two')
        for ws, name, heads, swap in ((one, 'TblOne', ['Qty', 'Price', 'Total'], False),
                                      (two, 'TblTwo', ['Price', 'Qty', 'Total'], True)):
            for j, h in enumerate(heads):
                ws.cell(r0, c0 + j, h)
            for i, (q, p_) in enumerate(vals, start=1):
                q2, p2 = (q, p_) if not swap else (q + 100, p_ + 1000)
                ws.cell(r0 + i, c0 + (1 if swap else 0), q2)
                ws.cell(r0 + i, c0 + (0 if swap else 1), p2)
                ws.cell(r0 + i, c0 + 2, '=[@Qty]*2')
            ws.add_table(Table(displayName=name, ref=f'{colname(c0)}{r0}:{colname(c0 + 2)}{r0 + len(vals)}'))
        path = os.path.join(TMP, f'tbl2-{os.getpid()}-{len(_TBL2_FILES)}.xlsx')
        wb.save(path)
        _TBL2_FILES[key] = path
    return _TBL2_FILES[key]


def impl_tbl2(case):
    """two tables at the same coordinates on two sheets: every first-evaluation order reads qty*2 of the cell's own table"""
    from pycel import ExcelCompiler
    (c0, r0), vals = case['geom'], case['vals']
    addrs = [cell_addr(sh, c0 + 2, r0 + i) for sh in ('One', 'Two') for i in range(1, len(vals) + 1)]
    want = [enc_out(q * 2) for q, _ in vals] + [enc_out((q + 100) * 2) for q, _ in vals]
    comp = ExcelCompiler(filename=_tbl2_file(c0, r0, vals))
    for t in case['order']:
        if t == 'range':
            for sh in ('Two', 'One'):
                _raw_eval(comp, range_addr(sh, c0 + 2, r0 + 1, c0 + 2, r0 + len(vals)))
        else:
            _raw_eval(comp, addrs[t])
    got = [_raw_eval(comp, a) for a in addrs]
    fails = []
    if got != want:
        k = next(i for i, (x, y) in enumerate(zip(got, want)) if x != y)
        fails.append((0, f'=[@Qty]*2 in {addrs[k]} (tables TblOne/TblTwo at the same coordinates on sheets One/Two) after '
                         f'first evaluating {[addrs[t] if t != "range" else t for t in case["order"]]} reads '
                         f'{core.show(got[k])}, the Qty cell of its own row doubled is {core.show(want[k])}'))
    _ORACLE[json.dumps(case, sort_keys=True)] = fails
    return ','.join(got)


def impl_tbl(case):
    if case.get('two'):
        return impl_tbl2(case)
    form, (c0, r0), vals = case['form'], case['geom'], case['vals']
    fails = []
    key = (form, c0, r0, json.dumps(vals))
    if case.get('fresh') and key not in _TBL_FRESH:
        _TBL_FRESH[key] = _tbl_fresh_per_cell(form, c0, r0, vals)          # before the subject model exists
    outs = []
    if case.get('pre'):
        pc, pr, pvals = case['pre']
        got = _tbl_run(form, pc, pr, pvals, [len(pvals) - 1, 'dep'])
        want = _tbl_twin(form, pc, pr, pvals)
        outs.append('pre:' + ','.join(got))
        if got != want:
            fails.append((0, f'the workbook compiled first (table at {colname(pc)}{pr}) reads {got}, its A1-spelled twin '
                             f'{want}'))
    got = _tbl_run(form, c0, r0, vals, case['order'])
    want = _tbl_twin(form, c0, r0, vals)
    outs.append(','.join(got))
    if got != want and not fails:
        fails.append((0, f'{_tbl_text(form, r0)} in {tbl_addrs(c0, r0, len(vals))[0]} after first evaluating '
                         f'{case["order"]}' + (' (another workbook with the same sheet name compiled first)'
                                               if case.get('pre') else '') +
                         f': read-out {[core.show(x) for x in got]}, A1-spelled twin {[core.show(x) for x in want]}'))
    if case.get('fresh'):
        after = _tbl_fresh_per_cell(form, c0, r0, vals)
        if not fails and (after != _TBL_FRESH[key] or after != want):
            fails.append((0, f'a fresh compiler per cell gave {_TBL_FRESH[key]} before and {after} after the subject '
                             f'model was evaluated (twin {want})'))
    _ORACLE[json.dumps(case, sort_keys=True)] = fails
    return ';'.join(outs)


def tbl_cases(tier):
    vals = [[2, 10], [3, 100], [4, 1000]]
    other = [[5, 7], [6, 70], [8, 700]]
    orders = [list(p) for p in itertools.permutations([0, 1, 2])] + [['range'], ['list'], ['dep'], [2, 'range', 0]]
    geoms = [(1, 1), (2, 3)]
    for form in range(len(TBL_FORMS)):
        for gi, (c0, r0) in enumerate(geoms):
            chosen = orders if tier == 'thorough' or form < 2 else orders[(form + gi) % 3::3]
            for oi, order in enumerate(chosen):
                yield {'kind': 'tbl', 'tag': 'sametext', 'form': form, 'geom': [c0, r0], 'vals': vals, 'order': order,
                       'fresh': 1 if oi == 0 else 0}
            oc, orow = geoms[1 - gi]
            for order in (orders[5], ['range']):
                yield {'kind': 'tbl', 'tag': 'sametext', 'form': form, 'geom': [c0, r0], 'vals': vals, 'order': order,
                       'pre': [oc, orow, other], 'fresh': 0}
    n = len(vals)
    for (c0, r0) in geoms:
        for order in ([0, n], [n, 0], [2 * n - 1, n - 1, 0, n], ['range'], [n, 'range']):
            yield {'kind': 'tbl', 'tag': 'twosheets', 'two': 1, 'form': 0, 'geom': [c0, r0], 'vals': vals, 'order': order}


# ---------------------------------------------------------------------------------------------------------------
# engine family `absent`: a blank cell beyond the used area of the active / a non-active sheet, both orders

def absent_cases(tier):
    base = [['I', 'Sheet1!A1', _n(1)], ['I', "'Data 2'!A1", _n(5)], ['I', "'Data 2'!A2", _n(6)],
            ['R', "'Data 2'!A1:A2", 2, 1, [1, 2]], ['F', 'Sheet1!B1', 'sum', [3]], ['I', 'Sheet1!A2', _n(2)],
            ['I', 'Sheet1!B2', _n('x')], ['R', 'Sheet1!A1:A2', 2, 1, [0, 5]], ['R', 'Sheet1!A1:B1', 1, 2, [0, 4]],
            ['F', "'Data 2'!B1", 'cnt', [7]], ['I', "'Data 2'!B2", _n(3)],
            ['R', "'Data 2'!A1:B1", 1, 2, [1, 9]], ['R', "'Data 2'!A1:B2", 2, 2, [1, 9, 2, 10]],
            ['R', "'Data 2'!B1:B2", 2, 1, [9, 10]], ['R', 'Sheet1!B1:B2', 2, 1, [4, 6]],
            ['R', 'Sheet1!A2:B2', 1, 2, [5, 6]], ['R', 'Sheet1!A1:B2', 2, 2, [0, 4, 5, 6]]]
    spell = {'3': 'A:A', '7': 'A:A'}
    for sheet in ('Sheet1', 'Data 2'):
        for (c, r) in ((1, 5), (4, 1), (3, 4)):
            nodes = [list(n) for n in base] + [['I', cell_addr(sheet, c, r), 'z']]
            ab = len(nodes) - 1
            ub = [['E', ['u', sheet, 1, 0, 1, 0, 0]], ['E', ['u', sheet, 0, 1, 0, 1, 0]],
                  ['E', ['u', sheet, 1, 0, 2, 0, 0]], ['E', ['u', sheet, 0, 1, 0, 2, 0]]]
            fm = [['E', ['c', 4, 0]], ['E', ['c', 9, 0]]]
            for cfg in (('nodata', 'file', 'xlsx') if tier == 'thorough' else ('nodata', 'file')):
                for first in (ub, fm):
                    yield {'cfg': cfg, 'nodes': nodes, 'spell': spell, 'absent': [ab], 'tag': 'absent',
                           'ops': [['E', ['c', ab, 0]]] + first + ub + fm}
                    yield {'cfg': cfg, 'nodes': nodes, 'spell': spell, 'absent': [ab], 'tag': 'absent',
                           'ops': first + [['E', ['c', ab, 0]]] + ub + fm}


# ---------------------------------------------------------------------------------------------------------------
# model side

def sheet_tok(sheet, sheetless=False):
    return '-' if sheetless else 'S%d' % (SHEETS.index(sheet) + 1)


def path_toks(case, p):
    nodes = case['nodes']
    if p[0] == 'c':
        s, c, r, _, _ = split_addr(nodes[p[1]][1])
        return ['C', sheet_tok(s, p[2]), str(c), str(r)]
    if p[0] == 'r':
        s, c1, r1, c2, r2 = split_addr(nodes[p[1]][1])
        return ['R', sheet_tok(s, p[2]), str(c1), str(r1), str(c2), str(r2)]
    _, sheet, c1, r1, c2, r2, sheetless = p
    return ['U', sheet_tok(sheet, sheetless), str(c1), str(r1), str(c2), str(r2)]


def model_lines(case):
    if case.get('kind') == 'clip':
        c1, r1, c2, r2 = case['u']
        return [f'c05 clip {c1} {r1} {c2} {r2} {case["mc"]} {case["mr"]}']
    if case.get('kind') == 'extent':
        (c1, r1, c2, r2), mc, mr = extent_geometry(case)
        return [f'c05 clip {c1} {r1} {c2} {r2} {mc} {mr}']
    if case.get('kind') in ('raw', 'tbl'):
        return []                # oracle-only families: the Lean model has no CSE arrays / structured references
    nodes = case['nodes']
    cfg = {'nodata': 'nodata', 'file': 'nodata', 'xlsx': 'stored'}[case['cfg']]
    toks = ['c05', cfg, str(len(nodes))]
    cells, ranges = [], []
    for i, n in enumerate(nodes):
        if n[0] == 'I':
            toks += ['I', n[2]]
        elif n[0] == 'F':
            kind, args = n[2], n[3]
            if kind in ('cat', 'sum', 'cnt'):
                toks += ['F', kind, str(len(args))] + [str(j) for j in args]
            else:
                toks += ['F', kind] + [str(j) for j in args]
        else:
            toks += ['R', str(n[2]), str(n[3])] + [str(j) for j in n[4]]
        s, c1, r1, c2, r2 = split_addr(n[1])
        if n[0] == 'R':
            ranges += [sheet_tok(s), str(c1), str(r1), str(c2), str(r2), str(i)]
        else:
            cells += [sheet_tok(s), str(c1), str(r1), str(i)]
    used = used_areas(case)
    toks += ['S1', str(len(cells) // 4)] + cells + [str(len(ranges) // 6)] + ranges
    toks += [str(len(used))] + [t for s, (mc, mr) in used.items() for t in (sheet_tok(s), str(mc), str(mr))]
    for op in case['ops']:
        if op[0] == 'S':
            toks += ['S', str(op[1]), op[2]]
        elif op[0] == 'E':
            toks += ['E'] + path_toks(case, op[1])
        else:
            toks += ['M', op[1], str(len(op[2]))] + [t for p in op[2] for t in path_toks(case, p)]
    return [' '.join(toks)]


def _item_same(x, y):
    """where the model says the call is outside the property (`!err`: no cell to agree with) any raise is accepted"""
    if x == y:
        return True
    if y in ('!err', 'none'):
        return x.startswith('!exc:')
    if y[:3] in ('L{ ', 'T{ '):
        ys = split_many(y)
        if '!err' in ys and x.startswith('!exc:'):
            return True
        if x[:3] == y[:3]:
            xs = split_many(x)
            return len(xs) == len(ys) and all(_item_same(p, q) for p, q in zip(xs, ys))
    return False


def same(impl_out, model_out):
    if model_out == '' and impl_out is not None:
        return True              # raw family (no model line): decided by the order oracle alone
    if impl_out == model_out:
        return True
    if model_out is None or impl_out is None:
        return False
    a, b = impl_out.split(';'), model_out.split(';')
    return len(a) == len(b) and all(_item_same(x, y) for x, y in zip(a, b))


def governed(case):
    return True       # the property fixes every value returned by evaluate (the model answers `!err` where it does not)


def oracles(results):
    groups = {}
    raw_groups = {}
    for r in results:
        if r.case.get('kind') == 'clip':
            want = clip_shape(r.case)
            if want != 'none' and r.impl != want:
                yield r.case, (f'unbounded {unbounded_coord(*r.case["u"])} on used area (1,1,{r.case["mc"]},'
                               f'{r.case["mr"]}) has shape {r.impl}, its cells inside the used area are {want}')
            continue
        if r.case.get('kind') == 'extent':
            want = clip_shape({'u': extent_geometry(r.case)[0], 'mc': 2, 'mr': r.case['k']})
            if r.impl != want:
                yield r.case, (f'{r.case["data"]}!{"A:A" if r.case["form"] == "col" else "1:1"} ({r.case["via"]}, '
                               f'{r.case["order"]}, blank cell {r.case["blank"]}) shows {r.impl}, its cells inside the '
                               f'used area (1,1,2,{r.case["k"]}) are {want}')
            continue
        key = json.dumps(r.case, sort_keys=True)
        for k, msg in _ORACLE.get(key, [])[:1]:
            yield r.case, f'op #{k}: {msg}'
        if r.case.get('kind') == 'tbl':
            if not r.case.get('pre') and not r.case.get('two'):
                g = ('tbl', r.case['form'], json.dumps(r.case['geom']), json.dumps(r.case['vals']))
                raw_groups.setdefault(g, []).append(r)
            continue
        if r.case.get('kind') == 'raw':
            g = ('raw', json.dumps(r.case['cells'], sort_keys=True), json.dumps(r.case['arrays'], sort_keys=True),
                 bool(r.case.get('file')))
            raw_groups.setdefault(g, []).append(r)
            continue
        if r.case.get('perm'):
            g = (r.case['cfg'], json.dumps(r.case['nodes']), r.case['tag'], json.dumps(r.case['ops'][r.case['perm']:]))
            groups.setdefault(g, []).append(r)
    for g, rs in raw_groups.items():
        for r in rs[1:]:
            if r.impl != rs[0].impl:
                yield r.case, (f'read-out {r.impl[:120]} after first evaluating {r.case["order"]} differs from '
                               f'{rs[0].impl[:120]} after {rs[0].case["order"]}')
                break
    for g, rs in groups.items():
        k = rs[0].case['perm']
        ref = rs[0].impl.split(';')[k:]
        for r in rs[1:]:
            if r.impl.split(';')[k:] != ref:
                yield r.case, ('read-out after this first-evaluation order differs from the read-out after the order '
                               + json.dumps(rs[0].case['ops'][:k]))
                break


# ---------------------------------------------------------------------------------------------------------------
# known defect classes (narrow: decided on the first operation whose outputs differ)

def _first_diff(a, b):
    a, b = (a or '').split(';'), (b or '').split(';')
    for k, (x, y) in enumerate(zip(a, b)):
        if not _item_same(x, y):
            return k
    return None


def finding_key(case, impl_out, model_out):
    """no known finding class is left for C05: every disagreement is a violation"""
    return None


# ---------------------------------------------------------------------------------------------------------------
# coverage

def nontrivial(case):
    if case.get('kind') in ('clip', 'extent', 'raw', 'tbl'):
        return True
    seen_nodes = set()
    kinds = set()
    for op in case['ops']:
        for p in ([op[1]] if op[0] == 'E' else op[2] if op[0] == 'M' else []):
            kinds.add(p[0])
            if p[0] != 'u':
                seen_nodes.add(p[1])
    return len(kinds) > 1 or len(seen_nodes) > 1


def bucket(case):
    if case.get('kind') == 'clip':
        return 'clip'
    if case.get('kind') == 'extent':
        return 'extent'
    if case.get('kind') in ('raw', 'tbl'):
        return case.get('tag', 'raw')
    return f'{case.get("tag", "corpus")}:{case["cfg"]}'


# ---------------------------------------------------------------------------------------------------------------
# fixed workbooks of the exhaustive core

def _n(v):
    return _tok(v)


def add_ranges(nodes, rects):
    """append range nodes (sheet, c1, r1, c2, r2) that are not there yet; returns {rect: node}"""
    index = {}
    out = {}
    for i, n in enumerate(nodes):
        s, c1, r1, c2, r2 = split_addr(n[1])
        if n[0] == 'R':
            out[(s, c1, r1, c2, r2)] = i
        else:
            index[(s, c1, r1)] = i
    for rect in rects:
        s, c1, r1, c2, r2 = rect
        if rect in out or (c1, r1) == (c2, r2):
            continue
        members = [index[(s, c, r)] for r in range(r1, r2 + 1) for c in range(c1, c2 + 1)]
        nodes.append(['R', range_addr(s, c1, r1, c2, r2), r2 - r1 + 1, c2 - c1 + 1, members])
        out[rect] = len(nodes) - 1
    return out


def grids_of(nodes):
    g = {}
    for n in nodes:
        if n[0] != 'R':
            s, c, r, _, _ = split_addr(n[1])
            mc, mr = g.get(s, (1, 1))
            g[s] = (max(mc, c), max(mr, r))
    return g


def all_rects(nodes, limit=None, rng=None):
    """every rectangle (≥ 2 cells) of every sheet's grid whose cells are all nodes"""
    have = {split_addr(n[1])[:3] for n in nodes if n[0] != 'R'}
    out = []
    for s, (mc, mr) in grids_of(nodes).items():
        for c1 in range(1, mc + 1):
            for c2 in range(c1, mc + 1):
                for r1 in range(1, mr + 1):
                    for r2 in range(r1, mr + 1):
                        if (c1, r1) != (c2, r2) and all((s, c, r) in have for c in range(c1, c2 + 1)
                                                         for r in range(r1, r2 + 1)):
                            out.append((s, c1, r1, c2, r2))
    if limit is not None and len(out) > limit:
        out = rng.sample(out, limit)
    return out


def fixed_workbooks():
    """[(nodes, spell)] — 4-6 cells each"""
    S, D = 'Sheet1', 'Data 2'
    # W1: ranges and a nested range: A3 = SUM(A1:A2), B2 = INDEX(A1:A3,3,1) reads a range that contains A3
    w1 = [['I', 'Sheet1!A1', _n(2)], ['I', 'Sheet1!A2', _n(3)], ['R', 'Sheet1!A1:A2', 2, 1, [0, 1]],
          ['F', 'Sheet1!A3', 'sum', [2]], ['R', 'Sheet1!A1:A3', 3, 1, [0, 1, 3]],
          ['F', 'Sheet1!B1', 'cat', [0, 3]], ['F', 'Sheet1!B2', 'idx', [4, 3, 1]], ['F', 'Sheet1!B3', 'add', [3, 6]]]
    # W2: cross-sheet references both ways
    w2 = [['I', 'Sheet1!A1', _n(1)], ['I', "'Data 2'!A1", _n(5)], ['F', "'Data 2'!A2", 'add', [0, 1]],
          ['R', "'Data 2'!A1:A2", 2, 1, [1, 2]], ['F', 'Sheet1!B1', 'sum', [3]], ['F', 'Sheet1!A2', 'cat', [2, 4]],
          ['R', 'Sheet1!A1:B1', 1, 2, [0, 4]], ['F', 'Sheet1!B2', 'cnt', [6, 3]]]
    # W3: a blank cell, text, formulas that spell their ranges as A:A and 1:1
    w3 = [['I', 'Sheet1!A1', _n(0)], ['I', 'Sheet1!A2', _n(None)], ['I', 'Sheet1!B1', _n('x')],
          ['R', 'Sheet1!A1:B1', 1, 2, [0, 2]], ['F', 'Sheet1!A3', 'idx', [3, 1, 2]],
          ['R', 'Sheet1!A1:A3', 3, 1, [0, 1, 4]], ['F', 'Sheet1!B2', 'sum', [5]], ['I', 'Sheet1!B3', _n(True)]]
    spell3 = {'3': '1:1', '5': 'A:A'}
    # W4: a chain for the set_value family
    w4 = [['I', 'Sheet1!A1', _n(5)], ['F', 'Sheet1!B1', 'add', [0, 0]], ['F', 'Sheet1!C1', 'cat', [1]],
          ['F', 'Sheet1!D1', 'cat', [0, 2]]]
    return [(w1, None), (w2, None), (w3, spell3), (w4, None)]


def readout(case_nodes, rng=None, max_rects=None):
    """a fixed list of ops reading every cell through every kind of path (nodes gain the needed range nodes)"""
    nodes = case_nodes
    rects = all_rects(nodes, max_rects, rng)
    grids = grids_of(nodes)
    for s, (mc, mr) in grids.items():
        rects += [(s, c, 1, c, mr) for c in range(1, mc + 1)] + [(s, 1, r, mc, r) for r in range(1, mr + 1)]
        rects.append((s, 1, 1, mc, mr))
    rmap = add_ranges(nodes, rects)
    cells = [i for i, n in enumerate(nodes) if n[0] != 'R']
    ops = [['E', ['c', i, 0]] for i in cells]
    ops += [['E', ['r', j, 0]] for rect, j in sorted(rmap.items(), key=lambda kv: kv[1])]
    for s, (mc, mr) in grids.items():
        ops += [['E', ['u', s, c, 0, c, 0, 0]] for c in range(1, mc + 1)]
        ops += [['E', ['u', s, 0, r, 0, r, 0]] for r in range(1, mr + 1)]
        if s == 'Sheet1':
            ops += [['E', ['u', s, 1, 0, 1, 0, 1]], ['E', ['u', s, 0, mr, 0, mr, 1]]]
        if mc > 1 and mr > 1:
            ops.append(['E', ['u', s, 1, 0, mc, 0, 0]])
            ops.append(['E', ['u', s, 0, 1, 0, mr, 0]])
    s1 = [i for i in cells if split_addr(nodes[i][1])[0] == 'Sheet1']
    ops += [['E', ['c', i, 1]] for i in s1]
    ops += [['E', ['r', j, 1]] for rect, j in rmap.items() if rect[0] == 'Sheet1'][:3]
    ops.append(['M', 'l', [['c', i, 0] for i in cells]])
    ops.append(['M', 't', [['c', i, i % 2 if i in s1 else 0] for i in reversed(cells)]])
    some = [j for _, j in sorted(rmap.items(), key=lambda kv: kv[1])][:2]
    ops.append(['M', 'g', [['c', cells[0], 0]] + [['r', j, 0] for j in some] + [['c', cells[-1], 0]]])
    ops.append(['M', 'l', []])
    ops += [['E', ['c', i, 0]] for i in cells]            # repeating evaluate returns the same value
    return ops


def perm_cases(tier, rng):
    thorough = tier == 'thorough'
    books = fixed_workbooks()
    for wi, (w, spell) in enumerate(books[:3]):
        nodes = [list(n) for n in w]
        tail = readout(nodes)
        cells = [i for i, n in enumerate(nodes) if n[0] != 'R']
        perms = list(itertools.permutations(cells))
        for cfg in ('nodata', 'file', 'xlsx'):
            if thorough or (wi == 0 and cfg == 'nodata'):
                chosen = perms                                   # all 720
            else:
                step = 6 if cfg == 'nodata' else 12             # a fixed, seed-independent subset
                chosen = perms[wi::step]
            for p in chosen:
                c = {'cfg': cfg, 'nodes': nodes, 'tag': 'perm', 'perm': len(p),
                     'ops': [['E', ['c', i, 0]] for i in p] + tail}
                if spell:
                    c['spell'] = spell
                yield c
    # all permutations x all positions of one write, on the chain
    w, _ = books[3]
    nodes = [list(n) for n in w]
    tail = readout(nodes)
    cells = [i for i, n in enumerate(nodes) if n[0] != 'R']
    for cfg in ('nodata', 'xlsx'):
        for p in itertools.permutations(cells):
            for k in range(0, len(p) + 1):
                for v in ((7,) if not thorough else (7, None)):
                    ops = [['E', ['c', i, 0]] for i in p[:k]] + [['S', 0, _tok(v)]] + \
                          [['E', ['c', i, 0]] for i in p[k:]] + tail
                    yield {'cfg': cfg, 'nodes': nodes, 'tag': 'permset', 'ops': ops}
                    if p[k:]:
                        # the cells not yet built are first reached through the enclosing range / the row form
                        whole = next(i for i, n in enumerate(nodes) if n[1] == 'Sheet1!A1:D1')
                        via = ['r', whole, 0] if (k + len(p)) % 2 else ['u', 'Sheet1', 0, 1, 0, 1, 0]
                        yield {'cfg': cfg, 'nodes': nodes, 'tag': 'permset',
                               'ops': ops[:k + 1] + [['E', via]] + ops[k + 1:]}
    # permutations of mixed first-evaluation paths (ranges, unbounded forms, sequences) on W1 and W3
    for wi in (0, 2):
        w, spell = books[wi]
        nodes = [list(n) for n in w]
        tail = readout(nodes)
        rs = [i for i, n in enumerate(nodes) if n[0] == 'R']
        cells = [i for i, n in enumerate(nodes) if n[0] != 'R']
        targets = [['E', ['r', rs[0], 0]], ['E', ['u', 'Sheet1', 1, 0, 1, 0, 0]], ['E', ['u', 'Sheet1', 0, 1, 0, 1, 0]],
                   ['E', ['c', cells[-1], 1]], ['M', 'g', [['c', cells[-2], 0], ['r', rs[-1], 0]]]]
        for cfg in (('nodata', 'file', 'xlsx') if thorough else ('nodata',)):
            for p in itertools.permutations(targets):
                c = {'cfg': cfg, 'nodes': nodes, 'tag': 'permpath', 'perm': len(p), 'ops': list(p) + tail}
                if spell:
                    c['spell'] = spell
                yield c


def clip_cases(tier):
    hi = 4 if tier == 'thorough' else 3
    for mc in range(1, hi + 1):
        for mr in range(1, hi + 1):
            for a in range(1, hi + 2):
                for b in range(a, hi + 2):
                    yield {'kind': 'clip', 'u': [a, 0, b, 0], 'mc': mc, 'mr': mr}
                    yield {'kind': 'clip', 'u': [0, a, 0, b], 'mc': mc, 'mr': mr}
    # the edges of the sheet: the last column XFD (executed in full) and the last row 1048576 (the clipping step in
    # both tiers, the full evaluation of a million cells once in the thorough tier: `edge_cases`)
    yield {'kind': 'clip', 'u': [0, 1, 0, 1], 'mc': MAX_COL, 'mr': 2}
    yield {'kind': 'clip', 'u': [0, 2, 0, 2], 'mc': MAX_COL, 'mr': 2, 'last': 1}
    yield {'kind': 'clip', 'u': [0, 1, 0, 2], 'mc': MAX_COL, 'mr': 2, 'last': 1}
    yield {'kind': 'clip', 'u': [MAX_COL, 0, MAX_COL, 0], 'mc': MAX_COL, 'mr': 2, 'last': 1}
    yield {'kind': 'clip', 'u': [MAX_COL - 1, 0, MAX_COL, 0], 'mc': MAX_COL, 'mr': 2, 'last': 1}
    yield {'kind': 'clip', 'u': [0, 2, 0, 2], 'mc': MAX_COL - 1, 'mr': 2, 'last': 1}
    for u in ([1, 0, 1, 0], [2, 0, 2, 0], [1, 0, 2, 0], [0, MAX_ROW, 0, MAX_ROW], [0, MAX_ROW - 1, 0, MAX_ROW]):
        yield {'kind': 'clip', 'u': u, 'mc': 2, 'mr': MAX_ROW, 'level': 'addr'}
        yield {'kind': 'clip', 'u': u, 'mc': 2, 'mr': MAX_ROW - 1, 'level': 'addr'}
    for u in ([0, 1, 0, 1], [0, 1, 0, 2], [MAX_COL, 0, MAX_COL, 0]):
        yield {'kind': 'clip', 'u': u, 'mc': MAX_COL, 'mr': 2, 'level': 'addr'}
    yield {'kind': 'clip', 'u': [0, MAX_ROW, 0, MAX_ROW], 'mc': 2, 'mr': MAX_ROW, 'last': 1}     # 2 cells: cheap


def edge_cases(tier):
    """whole column B on a sheet that uses row 1048576: a million cells through the real compiler (~30 s, 1.5 GB)"""
    if tier == 'thorough':
        yield {'kind': 'clip', 'u': [2, 0, 2, 0], 'mc': 2, 'mr': MAX_ROW, 'last': 1}


# ---------------------------------------------------------------------------------------------------------------
# random workbooks

INTS = [0, 1, -1, 2, 5, 10, -3, 7]
TEXTS = ['a', 'b', '', 'x y', 'Zz']


def rand_value(rng):
    r = rng.random()
    if r < 0.15:
        return None
    if r < 0.27:
        return rng.choice([True, False])
    if r < 0.75:
        return rng.choice(INTS)
    if r < 0.80:
        return ''
    return rng.choice(TEXTS)


def gen_workbook(rng):
    """-> (nodes, spell): every grid cell is a node; formulas read earlier cells and ranges of earlier cells; the last
    row and the last column of each sheet hold a non-blank cell (so that a saved file has the same used area)"""
    ncols, nrows = rng.randint(1, 3), rng.randint(1, 4)
    if ncols * nrows == 1:
        nrows = 2
    order = [('Sheet1', c, r) for r in range(1, nrows + 1) for c in range(1, ncols + 1)]
    grids = {'Sheet1': (ncols, nrows)}
    if rng.random() < 0.35:
        k = rng.randint(1, 3)
        grids['Data 2'] = (1, k)
        slots = sorted(rng.randint(0, len(order)) for _ in range(k))
        for r, at in enumerate(slots, start=1):
            order.insert(at + r - 1, ('Data 2', 1, r))
    nodes, index, rng_index = [], {}, {}
    placed = set()
    spell = {}

    def rects():
        out = []
        for s, (nc, nr) in grids.items():
            for c1 in range(1, nc + 1):
                for c2 in range(c1, nc + 1):
                    for r1 in range(1, nr + 1):
                        for r2 in range(r1, nr + 1):
                            size = (c2 - c1 + 1) * (r2 - r1 + 1)
                            if 2 <= size <= 6 and all((s, c, r) in placed for c in range(c1, c2 + 1)
                                                      for r in range(r1, r2 + 1)):
                                out.append((s, c1, r1, c2, r2))
        return out

    def range_node(rect):
        if rect not in rng_index:
            s, c1, r1, c2, r2 = rect
            members = [index[(s, c, r)] for r in range(r1, r2 + 1) for c in range(c1, c2 + 1)]
            nodes.append(['R', range_addr(s, c1, r1, c2, r2), r2 - r1 + 1, c2 - c1 + 1, members])
            rng_index[rect] = len(nodes) - 1
        return rng_index[rect]

    p_formula = rng.choice([0.35, 0.5, 0.65])
    for pos in order:
        s, c, r = pos
        addr = cell_addr(s, c, r)
        cellnodes = [i for i, n in enumerate(nodes) if n[0] != 'R']
        edge = c == grids[s][0] or r == grids[s][1]
        if cellnodes and rng.random() < p_formula:
            rs = rects()
            kind = rng.choice(['ref', 'cat', 'cat', 'add', 'sum', 'sum', 'cnt', 'idx'])
            if kind == 'idx' and not rs:
                kind = 'cat'
            if kind == 'ref':
                args = [rng.choice(cellnodes)]
            elif kind == 'cat':
                args = [rng.choice(cellnodes) for _ in range(rng.randint(1, 3))]
            elif kind == 'add':
                args = [rng.choice(cellnodes), rng.choice(cellnodes)]
            elif kind in ('sum', 'cnt'):
                args = []
                for _ in range(rng.randint(1, 3)):
                    if rs and rng.random() < 0.7:
                        args.append(range_node(rng.choice(rs)))
                    else:
                        args.append(rng.choice(cellnodes))
            else:
                rn = range_node(rng.choice(rs))
                args = [rn, rng.randint(1, nodes[rn][2]), rng.randint(1, nodes[rn][3])]
            nodes.append(['F', addr, kind, args])
        else:
            v = rand_value(rng)
            if edge and v is None:
                v = rng.choice(INTS)
            nodes.append(['I', addr, _tok(v)])
        index[pos] = len(nodes) - 1
        placed.add(pos)
    # formulas write a range that is a whole column / row of the used area as A:A / 1:1 (60%)
    for (s, c1, r1, c2, r2), j in rng_index.items():
        nc, nr = grids[s]
        if (r1, r2) == (1, nr) and c1 == c2 and rng.random() < 0.6:
            spell[str(j)] = f'{colname(c1)}:{colname(c1)}'
        elif (c1, c2) == (1, nc) and r1 == r2 and rng.random() < 0.6:
            spell[str(j)] = f'{r1}:{r1}'
    return nodes, spell


def rand_path(rng, nodes, grids, cells, ranges):
    r = rng.random()
    if r < 0.40 or not ranges:
        i = rng.choice(cells)
        sl = 1 if split_addr(nodes[i][1])[0] == 'Sheet1' and rng.random() < 0.25 else 0
        return ['c', i, sl]
    if r < 0.75:
        j = rng.choice(ranges)
        sl = 1 if split_addr(nodes[j][1])[0] == 'Sheet1' and rng.random() < 0.2 else 0
        return ['r', j, sl]
    s = rng.choice(list(grids))
    mc, mr = grids[s]
    sl = 1 if s == 'Sheet1' and rng.random() < 0.2 else 0
    if rng.random() < 0.5:
        a = rng.randint(1, mc)
        b = rng.randint(a, mc + (1 if rng.random() < 0.2 else 0))
        return ['u', s, a, 0, b, 0, sl]
    a = rng.randint(1, mr)
    b = rng.randint(a, mr + (1 if rng.random() < 0.2 else 0))
    return ['u', s, 0, a, 0, b, sl]


def _on_edge(n, grids):
    s, c, r, _, _ = split_addr(n[1])
    return c == grids[s][0] or r == grids[s][1]


def rand_cases(tier, rng):
    n = 2400 if tier == 'thorough' else 150
    cfgs = ['nodata', 'file', 'xlsx']
    for k in range(n):
        nodes, spell = gen_workbook(rng)
        grids = grids_of(nodes)
        rects = all_rects(nodes, 6, rng)
        for s, (mc, mr) in grids.items():
            rects += [(s, c, 1, min(c2, mc), mr) for c in range(1, mc + 1) for c2 in range(c, mc + 1)]
            rects += [(s, 1, r, mc, min(r2, mr)) for r in range(1, mr + 1) for r2 in range(r, mr + 1)]
        add_ranges(nodes, rects)
        absent = None
        if rng.random() < 0.3:
            # a blank cell beyond the used area, not written into the workbook (reading it must not move the used area)
            sh = rng.choice(sorted(grids))
            mc, mr = grids[sh]
            nodes.append(['I', cell_addr(sh, mc + rng.randint(0, 2), mr + rng.randint(1, 3)), 'z'])
            absent = len(nodes) - 1
        cells = [i for i, n in enumerate(nodes) if n[0] != 'R']
        ranges = [i for i, n in enumerate(nodes) if n[0] == 'R']
        inputs = [i for i in cells if nodes[i][0] == 'I' and i != absent]
        for cfg in (cfgs if tier == 'thorough' else [cfgs[k % 3]]):
            if cfg != 'nodata' and any(n[0] == 'I' and n[2] == 's:' for n in nodes):
                # a saved file cannot hold an empty text: openpyxl reads it back as a blank cell
                nodes = [['I', n[1], 'z'] if n[0] == 'I' and n[2] == 's:' and not _on_edge(n, grids) else
                         (['I', n[1], 'n:2/1'] if n[0] == 'I' and n[2] == 's:' else n) for n in nodes]
            ops = []
            for _ in range(rng.randint(3, 20)):
                r = rng.random()
                if r < 0.08 and inputs:
                    i = rng.choice(inputs)
                    s, c, rr, _, _ = split_addr(nodes[i][1])
                    v = rand_value(rng)
                    if v is None and (c == grids[s][0] or rr == grids[s][1]):
                        v = 3
                    ops.append(['S', i, _tok(v)])
                elif r < 0.25:
                    kind = rng.choice('ltg')
                    ops.append(['M', kind, [rand_path(rng, nodes, grids, cells, ranges)
                                            for _ in range(rng.randint(0, 4))]])
                else:
                    ops.append(['E', rand_path(rng, nodes, grids, cells, ranges)])
            tail = cells[:]
            rng.shuffle(tail)
            ops += [['E', ['c', i, 0]] for i in tail]
            c = {'cfg': cfg, 'nodes': nodes, 'tag': 'rand', 'ops': ops}
            if spell:
                c['spell'] = spell
            if absent is not None:
                c['absent'] = [absent]
            yield c


def cases(tier, rng):
    yield from clip_cases(tier)
    yield from extent_cases(tier)
    yield from cse_cases(tier)
    yield from tbl_cases(tier)
    yield from absent_cases(tier)
    yield from perm_cases(tier, rng)
    yield from rand_cases(tier, rng)
    yield from edge_cases(tier)

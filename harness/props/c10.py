"""C10 — operators: total, Excel coercion, error and ordering rules (excelutil.py fixup / ExcelCmp / coerce_*).
DESIGN.md §7 C10.  Model: lean/Pycel/Model/Ops.lean, theorems: lean/Pycel/Props/C10.lean."""
import itertools
import re
from fractions import Fraction

from harness import core, pyc

ID = 'C10'
LEAN_MODULE = 'Pycel.Props.C10'
NS = 'Pycel.Ops.'
THEOREMS = [NS + t for t in (
    'tables_agree', 'C10_total', 'C10_total_pinned_counterexample', 'C10_never_blank', 'C10_err_left',
    'C10_err_right', 'C10_arith_coerce', 'C10_arith_kinds', 'C10_other_text_value', 'C10_neg', 'C10_pct', 'C10_div0',
    'C10_concat_render', 'C10_render_kinds', 'C10_cmp_result', 'C10_trichotomy', 'C10_complements',
    'C10_trans', 'C10_trans_vals', 'C10_trans_blank_counterexample', 'C10_rank', 'C10_ci', 'C10_blank_neutral',
    'C10_numeric_text_examples')]
DESIGN_REF = 'DESIGN.md §7 C10'
RULE = ('near-equal PAIRS of numbers (x and nextafter(x), k ulps apart, 0.1+0.2 vs 0.3, 4.35*100 vs 435, 2^53 and '
        '2^60 neighbours differing by 1 as ints and floats, tiny vs 0, -0.0 vs 0.0, random products vs their 15-digit '
        'roundings) under all six comparisons, each float sent to the model as its exact rational; '
        'every operator {+ - * / ^ & = <> < <= > >=} x all ordered pairs, and unary - and %, over a value pool covering '
        'every type (numbers of both signs, integral/fractional, integral floats; numeric-looking, non-numeric, empty, '
        'logical-looking and sentinel text; TRUE/FALSE; blank; the seven errors), evaluated through cell references '
        '(=A1 op B1) and, where the operands can be written as literals, as literals; quick = core pool exhaustive + '
        'extended pool against representatives, thorough = whole pool exhaustive; plus random doubles / integers / '
        'numeric text / strings, and direct coerce_to_number / coerce_to_string calls. Transitivity is checked over all '
        'triples of the pool from the pairwise results. A case is non-trivial when no operand is an error value.')
ASSUMPTIONS = [
    'scalar operands only (array operands are property C13)',
    'numbers of moderate magnitude: |x| <= 1e15 and >= 1e-15 or 0; results that overflow only through ^',
    'numbers are doubles sent as exact rationals; the model re-creates float rounding with a hand-written '
    'round-to-nearest-even (f64) validated only by this differential run; C pow() results are compared with a '
    'relative tolerance of 1e-12 (model marks them with ~), everything else exactly',
    'text case mapping is modelled for ASCII and Latin-1 letters only',
    'integral numeric text spelled with "." or an exponent ("1e3", "3.0") is a Python float where the model has the '
    'number 1000: operator results beyond 2^53 with such an operand (exact int vs rounded float) are not generated',
    "ERROR_CODES also contains openpyxl's '#GETTING_DATA', which is plain text in the model; not generated",
    "the sentinel text '#EMPTY!' is an internal spelling of blank, not a text value (model follows the code there)",
]
TRUSTED = ['modelled, not verified: Python float()/int() on text matching the Excel numeric grammar, repr(float), '
           'str.lower/upper on ASCII+Latin-1, C pow()']
REQUIRED_BUCKETS = ['arith:cell', 'arith:lit', 'cmp:cell', 'cmp:lit', 'concat:cell', 'concat:lit', 'neg:cell',
                    'neg:lit', 'pct:cell', 'pct:lit', 'errprop', 'coerce:num', 'coerce:str', 'pow:fractional', 'cmp:near', 'arith:decorated-logical']
EXHAUSTIVE = False

SYM = {'Add': '+', 'Sub': '-', 'Mult': '*', 'Div': '/', 'Pow': '^', 'BitAnd': '&', 'Eq': '=', 'NotEq': '<>',
       'Lt': '<', 'LtE': '<=', 'Gt': '>', 'GtE': '>='}
ARITH = ('Add', 'Sub', 'Mult', 'Div', 'Pow')
CMP = ('Eq', 'NotEq', 'Lt', 'LtE', 'Gt', 'GtE')
OPS = ARITH + ('BitAnd',) + CMP
SENTINEL = '#EMPTY!'
NUMERIC_RE = re.compile(r'[ \t\n\v\f\r]*[+-]?([0-9]+\.?[0-9]*|\.[0-9]+)([eE][+-]?[0-9]+)?[ \t\n\v\f\r]*\Z')

s_ = core.enc_text


def n_(x):
    f = Fraction(x)
    return f'n:{f.numerator}/{f.denominator}'


ERRS = ['e:' + t for t in core.TAG_ERRS]
NUMS = [n_(x) for x in (0, 1, -1, 2, 3, -8, 10, 100, 400, 0.5, -0.5, 1.5, 2.5, -2.5, 0.1, 10.5, 1234567.25, 1e15)]
CORE_TEXT = [s_(t) for t in ('', 'a', 'A', 'abc', 'ABC', 'b', 'Z', '3', ' 3 ', '1.5', '1e3', '-2', 'inf', 'nan',
                             '1_0', 'TRUE', SENTINEL)]
MORE_TEXT = [s_(t) for t in (' ', 'aB', 'é', 'É', 'abd', 'ab', '+4', '.5', '1.', '0', '00', '-0', '0.1', '1E-3',
                             'Infinity', '-inf', 'NaN', '1e400', '1e-400', 'false', 'True', '١', '$5', '5%', '1,000',
                             '0x10', '1 2', 'e5', '--1', '1e', '.', '+', '1__0', '\t7\n', '\xa07', '3.0', '1e3.5',
                             '#N/B', 'z{', '~')]
MORE_NUMS = [n_(x) for x in (-3, 7, 0.25, -1.5, 1e-5, 123456789, -1e15, 2 ** 53 - 1, 0.30000000000000004, 1 / 3,
                             1e-15, 99.99)]
BOOLS = ['b:1', 'b:0']
DECORATED_LOGICALS = [' TRUE', 'TRUE ', ' true ', ' TRUE ', 'TRUE\t', '\nFALSE', ' FALSE', 'false ', '  False  ',
                      'T RUE', 'TRUE.', '.TRUE', 'TRUE()', '=TRUE', 'YES', 'NO', '1=1', 'TRU', 'TRUEE', 'FALS',
                      '"TRUE"', 'TRUE,', 'T', 'F', ' #EMPTY! ']
CORE_POOL = NUMS + CORE_TEXT + BOOLS + ['z'] + ERRS
MORE_POOL = MORE_TEXT + MORE_NUMS
POOL = CORE_POOL + MORE_POOL
REPS = [n_(0), n_(2), n_(-8), n_(0.5), s_(''), s_('a'), s_('3'), s_('TRUE'), 'b:1', 'z', 'e:na', s_(SENTINEL)]


# ---------------------------------------------------------------------------------------------------------------
# token <-> python / formula text

def _py(tok, as_float=False):
    v = core.dec(tok)
    if as_float == '-0' and v == 0:
        return -0.0
    if isinstance(v, Fraction):
        if v.denominator == 1 and not as_float:
            return int(v)
        f = float(v)
        assert Fraction(f) == v, f'{tok} is not a double'
        return f
    return v


_LIT_TEXT_OK = re.compile(r'[ -\[\]-~\xa0-\xff]*\Z')     # printable ASCII without backslash, Latin-1


def _lit(tok):
    """Excel literal spelling of the operand, or None when it has none (blank, exotic text, exponent floats)"""
    if tok == 'z':
        return None
    if tok.startswith('b:'):
        return 'TRUE' if tok == 'b:1' else 'FALSE'
    if tok.startswith('e:'):
        return core.TAG_ERRS[tok[2:]]
    if tok.startswith('n:'):
        v = core.dec(tok)
        if v.denominator == 1:
            return str(int(v)) if abs(v) < 10 ** 20 else None
        r = repr(float(v))
        return None if ('e' in r or Fraction(float(v)) != v) else r
    t = core.dec(tok)
    if not _LIT_TEXT_OK.match(t):
        return None
    return '"' + t.replace('"', '""') + '"'


def _is_neg_num(tok):
    return tok.startswith('n:-')


def formula_of(c):
    """(formula, cells) for the case, or None when the mode cannot express it"""
    k, mode = c['k'], c['mode']
    if mode == 'cell':
        cells = {}
        if k == 'op':
            cells = {'A1': _py(c['l'], c.get('lf', False)), 'B1': _py(c['r'], c.get('rf', False))}
            return f"=A1{SYM[c['op']]}B1", cells
        cells = {'A1': _py(c['x'], c.get('xf', False))}
        return ('=-A1' if k == 'neg' else '=A1%'), cells
    if k == 'op':
        a, b = _lit(c['l']), _lit(c['r'])
        if a is None or b is None:
            return None
        if c['op'] == 'Pow' and _is_neg_num(c['l']):
            return None      # "-8^2" is a precedence question (property C02), not an operator question
        return f"={a}{SYM[c['op']]}{b}", {}
    a = _lit(c['x'])
    if a is None:
        return None
    return (f'=-{a}' if k == 'neg' else f'={a}%'), {}


def _loose_num(tok):
    """like _num_of, but text is read with python's own float() too (so that a tree with a laxer grammar, e.g. the
    pinned one reading "1_0" as 10, is not sent into 10 ** 10**15 either)"""
    v = _num_of(tok)
    if v == 'text':
        try:
            f = float(core.dec(tok))
            return Fraction(f) if f == f and abs(f) != float('inf') else v
        except ValueError:
            return v
    return v


def _pow_moderate(c):
    """python computes int ** int exactly: 10 ^ 1e15 never finishes.  Moderate magnitude = result below ~4000 digits
    (python refuses str(int) beyond 4300 digits, which the harness encoding needs)"""
    if c['k'] != 'op' or c['op'] != 'Pow':
        return True
    x, y = _loose_num(c['l']), _loose_num(c['r'])
    if not isinstance(x, Fraction) or not isinstance(y, Fraction) or x == 0:
        return True
    import math
    mag = abs(math.log10(abs(float(x)))) if x != 0 else 0
    return abs(y) <= 1100 and abs(float(y)) * max(mag, 0.31) <= 4000


def _float_spelled_int(tok):
    """numeric text such as "1e3" / "3.0": python holds the float 1000.0, the model the number 1000"""
    t = _text(tok)
    if t is None or not t.isascii() or not NUMERIC_RE.match(t) or re.fullmatch(r'\s*[+-]?[0-9]+\s*', t):
        return False
    f = float(t)
    return f == int(f) if abs(f) < 1e300 else False


def _int_float_ambiguous(c):
    """int and float arithmetic differ beyond 2^53 (exact int vs rounded float / OverflowError); the model has one
    kind of number, so results beyond 2^53 with a float-spelled integral text operand are outside its domain"""
    if c['k'] != 'op' or c['op'] not in ARITH or not (_float_spelled_int(c['l']) or _float_spelled_int(c['r'])):
        return False
    x, y = _num_of(c['l']), _num_of(c['r'])
    if not isinstance(x, Fraction) or not isinstance(y, Fraction):
        return False
    if c['op'] == 'Pow':
        import math
        return x != 0 and abs(x) != 1 and abs(float(y) * math.log2(abs(float(x)))) >= 52
    if c['op'] == 'Div':
        return False
    exact = x + y if c['op'] == 'Add' else x - y if c['op'] == 'Sub' else x * y
    return abs(exact) >= 2 ** 53


def expressible(c):
    return c['k'] in ('num', 'str') or (formula_of(c) is not None and _pow_moderate(c)
                                        and not _int_float_ambiguous(c))


def op_case(op, l, r, mode, **kw):
    c = {'k': 'op', 'op': op, 'l': l, 'r': r, 'mode': mode}
    c.update(kw)
    return c


# ---------------------------------------------------------------------------------------------------------------

def _rand_double(rng):
    kind = rng.randrange(6)
    if kind == 0:
        return float(rng.randint(-1000, 1000))
    if kind == 1:
        return rng.randint(-10 ** 6, 10 ** 6) / 2 ** rng.randint(1, 12)
    if kind == 2:
        return rng.uniform(-1000, 1000)
    if kind == 3:
        return float(f'{rng.uniform(-100, 100):.{rng.randint(1, 6)}f}')
    if kind == 4:
        return rng.uniform(-1, 1) * 10 ** rng.randint(-12, 14)
    return float(rng.randint(-10 ** 12, 10 ** 12))


def _rand_numeric_text(rng):
    x = _rand_double(rng)
    style = rng.randrange(6)
    if style == 0:
        t = repr(x)
    elif style == 1:
        t = f'{x:.{rng.randint(0, 8)}f}'
    elif style == 2:
        t = f'{x:.{rng.randint(0, 10)}e}'
    elif style == 3:
        t = f'{x:+.3f}'
    elif style == 4:
        t = str(int(x))
    else:
        t = f'{abs(x):.4f}'.lstrip('0')
    pad = rng.choice(['', '', ' ', '  ', '\t', '\n'])
    return rng.choice(['', '', ' ']) + t + pad


def _rand_text(rng):
    al = 'abcABCxyzXYZ 019_-.é É#!'
    return ''.join(rng.choice(al) for _ in range(rng.randint(0, 5)))


def _mutate_numeric(rng, t):
    """numeric text with one character inserted/replaced: mostly not numeric any more"""
    ch = rng.choice(['_', ' ', 'e', 'x', ',', '.', '-', '+', 'f', '١', '\xa0', '%'])
    k = rng.randint(0, len(t))
    return t[:k] + ch + t[k + rng.randrange(2):]


def _ulps(x, k):
    import math
    for _ in range(abs(k)):
        x = math.nextafter(x, math.inf if k > 0 else -math.inf)
    return x


def near_clusters(rng, n_random):
    """clusters of DISTINCT numbers a few ulps (or one unit beyond 2^53) apart, as python values: every pair inside a
    cluster is compared under all six operators.  Floats travel to the model as their exact rationals."""
    cl = [
        [0.1 + 0.2, 0.3, _ulps(0.3, -1), _ulps(0.3, 2)],
        [1.0, 1 + 2 ** -52, 1 - 2 ** -53, _ulps(1.0, 3)],
        [4.35 * 100, 435, _ulps(435.0, 1)],
        [1.1 * 3, 3.3, 0.7 + 0.1, 0.8],
        [2 ** 53 - 1, 2 ** 53, 2 ** 53 + 1, 2 ** 53 + 2, float(2 ** 53)],
        [10 ** 15, 10 ** 15 + 1, 1e15, _ulps(1e15, 1)],
        [2 ** 60, 2 ** 60 + 1, float(2 ** 60), _ulps(float(2 ** 60), -1)],
        [0, 0.0, '-0', 5e-324, -5e-324, 1e-300, -1e-300, 2.2250738585072014e-308],
        [-0.1 - 0.2, -0.3, _ulps(-0.3, 1)],
        [1e-7 * 3, 3e-7, _ulps(3e-7, -2)],
        [100.0, _ulps(100.0, 1), _ulps(100.0, -1), 100],
    ]
    for _ in range(n_random):
        x = _rand_double(rng)
        if x == 0:
            continue
        kind = rng.randrange(3)
        if kind == 0:
            cl.append([x, _ulps(x, rng.choice([-3, -2, -1, 1, 2, 3]))])
        elif kind == 1:
            y = rng.uniform(0.5, 20)
            cl.append([x * y, float(repr(x * y)[:15]) if 'e' not in repr(x * y) else _ulps(x * y, 1),
                       _ulps(x * y, 1)])
        else:
            cl.append([x, x * (1 + rng.choice([1, -1]) * 10 ** -rng.randint(13, 17)), _ulps(x, rng.choice([-1, 1]))])
    return cl


def _near_tok(v):
    """(token, float flag) of a cluster member"""
    if v == '-0':
        return 'n:0/1', '-0'
    if isinstance(v, int):
        return n_(v), False
    return n_(v), True


def cases(tier, rng):
    thorough = tier == 'thorough'
    modes = ('cell', 'lit')
    # --- near-equal pairs of numbers under all six comparisons (exactly one of < = > must hold for them too)
    for cluster in near_clusters(rng, 400 if thorough else 60):
        toks = [_near_tok(v) for v in cluster]
        for (l, lf) in toks:
            for (r, rf) in toks:
                for op in CMP:
                    c = op_case(op, l, r, 'cell', near=1)
                    if lf:
                        c['lf'] = lf
                    if rf:
                        c['rf'] = rf
                    yield c
                    if not thorough and op not in ('Eq', 'Lt'):
                        continue
                    c2 = op_case(op, l, r, 'lit', near=1)
                    if lf != '-0' and rf != '-0' and expressible(c2):
                        yield c2

    def emit(c):
        if expressible(c):
            yield c

    # --- binary operators over the pool
    if thorough:
        pairs = [(l, r) for l in POOL for r in POOL]
    else:
        pairs = [(l, r) for l in CORE_POOL for r in CORE_POOL]
        pairs += [(l, r) for l in MORE_POOL for r in REPS] + [(l, r) for l in REPS for r in MORE_POOL]
        # pairs inside the extended pool that the order laws need (text/text, number/number)
        pairs += [(l, r) for l in MORE_TEXT for r in MORE_TEXT if rng.random() < 0.15]
    for (l, r) in pairs:
        for op in OPS:
            yield from emit(op_case(op, l, r, 'cell'))
            if thorough or rng.random() < 0.25:
                yield from emit(op_case(op, l, r, 'lit'))
    # integral numbers held as floats in the cells
    for l in (n_(3), n_(-8), n_(0), n_(100)):
        for r in (n_(2), n_(0), s_('a'), 'z', n_(0.5)):
            for op in OPS:
                yield from emit(op_case(op, l, r, 'cell', lf=True))
                yield from emit(op_case(op, r, l, 'cell', rf=True))
    # --- padded / decorated spellings of logicals: other text (#VALUE!), NOT the known finding's exact spellings
    for t in DECORATED_LOGICALS:
        for other in (n_(1), n_(5), n_(10), n_(0), n_(0.5), 'b:1', 'z', s_('3'), s_('TRUE'), s_('a')):
            for op in ARITH:
                for mode in modes:
                    yield from emit(op_case(op, s_(t), other, mode, deco=1))
                    yield from emit(op_case(op, other, s_(t), mode, deco=1))
        for k in ('neg', 'pct'):
            for mode in modes:
                yield from emit({'k': k, 'x': s_(t), 'mode': mode, 'deco': 1})
        for ca in (0, 1):
            yield {'k': 'num', 'ca': ca, 'v': s_(t)}
        for op in CMP + ('BitAnd',):
            yield op_case(op, s_(t), 'b:1', 'cell')
            yield op_case(op, s_('TRUE'), s_(t), 'cell')
    # --- unary minus and percent
    for x in POOL:
        for k in ('neg', 'pct'):
            for mode in modes:
                yield from emit({'k': k, 'x': x, 'mode': mode})
    # --- power: outcome classes
    bases = [n_(x) for x in (0, 1, -1, 2, -2, 10, 0.5, -0.5, 10.5, -10.5, 1.5, 3, -8, 100, 1e-5, 1e15)]
    exps = [n_(x) for x in (0, 1, 2, 3, -1, -2, -3, 0.5, -0.5, 1.5, 2.5, 1 / 3, 10, 100, 400, -400, 1000, -1000, 1023,
                            0.1, 7.25)]
    for b in bases:
        for e in exps:
            yield from emit(op_case('Pow', b, e, 'cell'))
            yield from emit(op_case('Pow', b, e, 'lit'))
    # --- random numbers
    for _ in range(20000 if thorough else 1500):
        l, r = n_(_rand_double(rng)), n_(_rand_double(rng))
        op = rng.choice(OPS)
        yield from emit(op_case(op, l, r, rng.choice(modes)))
    for _ in range(3000 if thorough else 300):
        b = n_(abs(_rand_double(rng)) if rng.random() < 0.8 else _rand_double(rng))
        e = n_(rng.choice([rng.uniform(-5, 5), rng.randint(-6, 6), rng.randint(-40, 40) / 8]))
        yield from emit(op_case('Pow', b, e, 'cell'))
    # --- random numeric text, mutated numeric text, random text against representatives
    for _ in range(6000 if thorough else 600):
        t = _rand_numeric_text(rng)
        if rng.random() < 0.4:
            t = _mutate_numeric(rng, t)
        other = rng.choice(REPS + NUMS)
        op = rng.choice(OPS)
        mode = rng.choice(modes)
        if rng.random() < 0.5:
            yield from emit(op_case(op, s_(t), other, mode))
        else:
            yield from emit(op_case(op, other, s_(t), mode))
        if rng.random() < 0.3:
            yield {'k': 'num', 'ca': rng.randrange(2), 'v': s_(t)}
    for _ in range(6000 if thorough else 600):
        a, b = _rand_text(rng), _rand_text(rng)
        if rng.random() < 0.3:
            b = ''.join(ch.upper() if rng.random() < 0.5 else ch.lower() for ch in a)
        op = rng.choice(CMP + ('BitAnd', 'Add'))
        yield from emit(op_case(op, s_(a), s_(b), rng.choice(modes)))
    # --- the coercion functions themselves (other models import them)
    for v in POOL:
        for ca in (0, 1):
            yield {'k': 'num', 'ca': ca, 'v': v}
        yield {'k': 'str', 'v': v}
    for _ in range(3000 if thorough else 300):
        yield {'k': 'str', 'v': n_(_rand_double(rng))}


# ---------------------------------------------------------------------------------------------------------------

def impl(c):
    if c['k'] == 'num':
        from pycel.excelutil import coerce_to_number
        return core.enc(coerce_to_number(_py(c['v']), convert_all=bool(c['ca'])))
    if c['k'] == 'str':
        from pycel.excelutil import coerce_to_string
        return core.enc(coerce_to_string(_py(c['v'])))
    formula, cells = formula_of(c)
    if c['mode'] == 'cell':
        cells = {k: v for k, v in cells.items() if v is not None}
    return core.enc(pyc.eval_formula(formula, cells))


def model_lines(c):
    if c['k'] == 'num':
        return [f"c10 num {c['ca']} {c['v']}"]
    if c['k'] == 'str':
        return [f"c10 str {c['v']}"]
    if c['k'] == 'op':
        return [f"c10 op {c['op']} {c['l']} {c['r']}"]
    if c['k'] == 'neg':
        return [f"c10 op USub {s_(SENTINEL)} {c['x']}"]
    return [f"c10 op Div {c['x']} n:100/1"]


def same(impl_out, model_out):
    if model_out is None:
        return False
    if model_out.startswith('~'):
        return core.num_close(impl_out, model_out[1:], rel=1e-12)
    return impl_out == model_out


def _operands(c):
    if c['k'] == 'op':
        return [c['l'], c['r']]
    if c['k'] in ('neg', 'pct'):
        return [c['x']]
    return [c['v']]


def _text(tok):
    return core.dec(tok) if tok.startswith('s:') else None


def _is_logical_text(tok):
    t = _text(tok)
    return t is not None and t.upper() in ('TRUE', 'FALSE') and t.isascii()


def _ascii_latin1(t):
    return all(ord(ch) < 256 for ch in t)


def _quirk(tok):
    """operand classes on which the property is silent (model follows the code)"""
    t = _text(tok)
    if t is None:
        return False
    if t.upper() == SENTINEL or t == '#GETTING_DATA':
        return True
    if not _ascii_latin1(t) or any(ch in t for ch in 'ßÿµ'):
        return True          # Unicode case mapping / Unicode digits and spaces in Python
    if re.search(r'[$%,/:]', t) and re.search(r'[0-9]', t):
        return True          # currency, percent, thousands separators, dates: Excel's own reading of such text
    return False


def governed(c):
    if c['k'] in ('num', 'str'):
        return False         # internal helpers: the property speaks about operators only
    if any(_quirk(t) for t in _operands(c)):
        return False
    if c['k'] == 'op' and c['op'] == 'Pow' and _num_of(c['l']) == 0 and _num_of(c['r']) == 0:
        return False         # 0^0 = 1 in python (Excel: #NUM!); the property does not say
    return True


def _is_arith(c):
    return c['k'] in ('neg', 'pct') or (c['k'] == 'op' and c['op'] in ARITH)


def finding_key(c, impl_out, model_out):
    if _is_arith(c) and impl_out and model_out == 'e:value' and impl_out != 'e:value' \
            and not impl_out.startswith('!') and any(_is_logical_text(t) for t in _operands(c)) \
            and all(_is_logical_text(t) or isinstance(_num_of(t), Fraction) for t in _operands(c)):
        # ONLY the exact spellings TRUE/FALSE (any case), every other operand standing for a number: padded or
        # decorated spellings (" TRUE", "TRUE.", "YES") are other text and a number there is a violation
        return 'text-logical-as-number'
    return None


def nontrivial(c):
    return not any(t.startswith('e:') for t in _operands(c))


def bucket(c):
    if c['k'] in ('num', 'str'):
        return 'coerce:' + c['k']
    if any(t.startswith('e:') for t in _operands(c)):
        return 'errprop'
    if c['k'] in ('neg', 'pct'):
        return f"{c['k']}:{c['mode']}"
    if c['op'] == 'Pow' and c['l'].startswith('n:') and c['r'].startswith('n:') and not c['r'].endswith('/1'):
        return 'pow:fractional'
    if c.get('near'):
        return 'cmp:near'
    if c.get('deco'):
        return 'arith:decorated-logical'
    kind = 'arith' if c['op'] in ARITH else 'concat' if c['op'] == 'BitAnd' else 'cmp'
    return f"{kind}:{c['mode']}"


# ---------------------------------------------------------------------------------------------------------------
# oracles: the property restated over implementation outputs only

def _num_of(tok):
    """the number the property assigns to an operand of an arithmetic operator, 'text' for other text, None = n/a"""
    if tok == 'z':
        return Fraction(0)
    if tok.startswith('b:'):
        return Fraction(1 if tok == 'b:1' else 0)
    if tok.startswith('n:'):
        return core.dec(tok)
    if tok.startswith('s:'):
        t = core.dec(tok)
        if t.upper() == SENTINEL:
            return Fraction(0)
        if NUMERIC_RE.match(t) and t.isascii():
            try:
                f = float(t)
            except ValueError:
                return 'text'
            if f in (float('inf'), float('-inf')):
                return 'text'
            return Fraction(int(t)) if re.fullmatch(r'\s*[+-]?[0-9]+\s*', t) else Fraction(f)
        return 'text'
    return None


def _render(tok):
    """the property's rendering of an operand of &"""
    if tok == 'z':
        return ''
    if tok.startswith('b:'):
        return 'TRUE' if tok == 'b:1' else 'FALSE'
    if tok.startswith('n:'):
        v = core.dec(tok)
        return str(int(v)) if v.denominator == 1 else repr(float(v))
    t = core.dec(tok)
    return '' if t == SENTINEL else t


def _close(tok, q, rel=1e-12):
    return tok.startswith('n:') and (core.dec(tok) == q or abs(core.dec(tok) - q) <= rel * max(abs(core.dec(tok)), abs(q)))


def oracles(results):
    by = {}
    for r in results:
        c = r.case
        out = r.impl
        ops = _operands(c)
        # totality: a number, text, logical or error value; never raises, never another type, never blank
        if out.startswith('!') or out == 'z' or out.startswith('a:'):
            if c['k'] in ('num', 'str') and out == 'z' and c['v'] == 'z':
                continue
            yield c, f'result is not an Excel scalar: {out}'
            continue
        if c['k'] in ('num', 'str'):
            continue
        # errors: returned unchanged, the left one first
        errs = [t for t in ops if t.startswith('e:')]
        if errs:
            if out != errs[0]:
                yield c, f'error operand {core.show(errs[0])} not returned unchanged: {core.show(out)}'
            continue
        logical_text = any(_is_logical_text(t) for t in ops)
        if c['k'] == 'op':
            by[(c['op'], c['l'], c['r'], c['mode'], c.get('lf', False), c.get('rf', False))] = r
        if _is_arith(c):
            if c['k'] == 'op':
                x, y, op = _num_of(c['l']), _num_of(c['r']), c['op']
            elif c['k'] == 'neg':
                x, y, op = Fraction(0), _num_of(c['x']), 'Sub'
            else:
                x, y, op = _num_of(c['x']), Fraction(100), 'Div'
            if x == 'text' or y == 'text':
                if out != 'e:value' and not logical_text:
                    yield c, f'non-numeric text operand gave {core.show(out)} instead of #VALUE!'
                continue
            if not (out.startswith('n:') or out.startswith('e:')):
                yield c, f'arithmetic returned {core.show(out)}'
                continue
            exact = None
            if op == 'Add':
                exact = x + y
            elif op == 'Sub':
                exact = x - y
            elif op == 'Mult':
                exact = x * y
            elif op == 'Div':
                if y == 0:
                    if out != 'e:div0':
                        yield c, f'x/0 gave {core.show(out)}'
                    continue
                exact = x / y
            elif op == 'Pow':
                if y.denominator == 1 and abs(y) <= 64 and not (x == 0 and y <= 0) and x != 0 \
                        and abs(x) < 2 ** 20 and abs(x) > 2 ** -20:
                    exact = x ** int(y)
                elif x < 0 and y.denominator != 1 and out != 'e:num':
                    yield c, f'negative base, fractional exponent gave {core.show(out)}'
                    continue
            if exact is not None and not _close(out, exact):
                yield c, f'{op} result {core.show(out)} is not {float(exact)!r}'
        elif c['k'] == 'op' and c['op'] == 'BitAnd':
            want = _render(c['l']) + _render(c['r'])
            if core.enc(want) != out:
                yield c, f'& gave {core.show(out)}, renderings concatenate to {want!r}'
    # ---- the order laws, per mode
    groups = {}
    for (op, l, r, mode, lf, rf), res in by.items():
        if op in CMP:
            # an operand is (token, how it is held in the cell): 3 and 3.0, 0.0 and -0.0 are different operands
            groups.setdefault((f'{l}{"|f" + str(lf) if lf else ""}', f'{r}{"|f" + str(rf) if rf else ""}', mode),
                              {})[op] = res
    lt = {}
    eq = {}
    for (l, r, mode), g in groups.items():
        if len(g) < 6:
            continue
        vals = {}
        bad = False
        for op, res in g.items():
            if res.impl not in ('b:0', 'b:1'):
                yield res.case, f'comparison returned {core.show(res.impl)}'
                bad = True
            vals[op] = res.impl == 'b:1'
        if bad:
            continue
        c0 = g['Lt'].case
        if [vals['Lt'], vals['Eq'], vals['Gt']].count(True) != 1:
            yield c0, f'trichotomy fails: < {vals["Lt"]}, = {vals["Eq"]}, > {vals["Gt"]}'
        if vals['NotEq'] == vals['Eq']:
            yield g['NotEq'].case, '<> is not the complement of ='
        if vals['LtE'] == vals['Gt']:
            yield g['LtE'].case, '<= is not the complement of >'
        if vals['GtE'] == vals['Lt']:
            yield g['GtE'].case, '>= is not the complement of <'
        lt[(l, r, mode)] = vals['Lt']
        eq[(l, r, mode)] = vals['Eq']
        # rank, case-insensitivity, blank neutrality
        l, r = l.split('|')[0], r.split('|')[0]
        kl, kr = _kind(l), _kind(r)
        if kl is not None and kr is not None and kl < kr and not vals['Lt']:
            yield c0, 'rank order number < text < logical violated'
        tl, tr = _text(l), _text(r)
        if kl == 1 and kr == 1 and tl.isascii() and tr.isascii() and (tl.lower() == tr.lower()) != vals['Eq']:
            yield g['Eq'].case, f'text equality is not case-insensitive equality: {vals["Eq"]}'
        if l == 'z' and r in ('z', 'n:0/1', 's:', 'b:0') and not vals['Eq']:
            yield g['Eq'].case, 'blank is not equal to the neutral value of the other side'
        if r == 'z' and l in ('z', 'n:0/1', 's:', 'b:0') and not vals['Eq']:
            yield g['Eq'].case, 'blank is not equal to the neutral value of the other side'
    for (l, r, mode), v in lt.items():
        if (r, l, mode) in lt:
            g = groups[(r, l, mode)]
            if v != (g['Gt'].impl == 'b:1'):
                yield groups[(l, r, mode)]['Lt'].case, 'a < b differs from b > a'
            if eq[(l, r, mode)] != eq[(r, l, mode)]:
                yield groups[(l, r, mode)]['Eq'].case, '= is not symmetric'
    # transitivity over all triples of non-blank operands (blank is neutral, not an element of the order)
    for mode in ('cell', 'lit'):
        elems = sorted({l for (l, r, m) in lt if m == mode and _kind(l.split('|')[0]) is not None})
        succ = {a: [b for b in elems if lt.get((a, b, mode))] for a in elems}
        same_ = {a: [b for b in elems if eq.get((a, b, mode))] for a in elems}
        for a in elems:
            for b in succ[a]:
                for c_ in succ[b]:
                    if lt.get((a, c_, mode)) is False:
                        yield groups[(a, c_, mode)]['Lt'].case, \
                            f'transitivity: {a} < {b} < {c_} but not a < c'
                for c_ in same_[b]:
                    if lt.get((a, c_, mode)) is False:
                        yield groups[(a, c_, mode)]['Lt'].case, \
                            f'transitivity: {a} < {b} = {c_} but not a < c'
            for b in same_[a]:
                for c_ in succ[b]:
                    if lt.get((a, c_, mode)) is False:
                        yield groups[(a, c_, mode)]['Lt'].case, \
                            f'transitivity: {a} = {b} < {c_} but not a < c'
                for c_ in same_[b]:
                    if eq.get((a, c_, mode)) is False:
                        yield groups[(a, c_, mode)]['Eq'].case, \
                            f'transitivity: {a} = {b} = {c_} but not a = c'


def _kind(tok):
    """rank of a non-blank, non-error operand: 0 number, 1 text, 2 logical"""
    if tok.startswith('n:'):
        return 0
    if tok.startswith('s:'):
        return None if core.dec(tok) == SENTINEL else 1
    if tok.startswith('b:'):
        return 2
    return None

"""C20 — text functions (lib/text.py) and TEXT number formats.  DESIGN.md §7 C20."""
import itertools
import json
import re
import sys
from fractions import Fraction

from harness import core, pyc

ID = 'C20'
LEAN_MODULE = 'Pycel.Props.C20'
NS = 'Pycel.TextFns.'
NF = 'Pycel.TextFormat.'
THEOREMS = [NS + t for t in (
    'C20_meta_table', 'C20_left_mid', 'C20_right', 'C20_right_length', 'C20_replace', 'C20_find_first',
    'C20_find_none', 'C20_find_complete', 'C20_substitute_all_none', 'C20_substitute_all_first',
    'C20_substitute_nth_first', 'C20_substitute_nth_next', 'C20_substitute_nth_none', 'C20_substitute_empty',
    'C20_concat_amp', 'C20_concat_cons', 'C20_trim_ends', 'C20_trim_single', 'C20_trim_words', 'C20_trim_idem',
    'C20_upper_idem', 'C20_lower_idem', 'C20_exact', 'C20_exact_case', 'C20_number_rendering',
    'C20_negative_counts', 'C20_wrapper_text')] + [NF + t for t in (
    'C20_text_round', 'C20_text_scaled', 'C20_text_tie', 'C20_text_digits', 'C20_text_frac_digits', 'C20_text_grouping',
    'C20_text_percent', 'C20_text_shape')]
DESIGN_REF = 'DESIGN.md §7 C20'
RULE = ('calls fn(args) through the excel_helper-wrapped library functions (and a sample through formulas in cells). '
        'Exhaustive small scope: every string up to length 3 (quick) / 4 (thorough) over the alphabet '
        "{a, A, b, space, '€'} x every n, k in -1..10 for LEFT RIGHT MID REPLACE, x every needle up to length 2 x start "
        '-1..5 for FIND, x needle x replacement x instance 0..4 for SUBSTITUTE; all of them through TRIM UPPER LOWER '
        'LEN; EXACT and CONCATENATE/& on pairs; numbers as text arguments; fractional counts; random strings up to '
        'length 8; a malformed stream (text/logical/blank/error in every position). TEXT: decimals k/10^j including '
        'every tie pattern x 360 formats of the grammar. Non-trivial = a non-empty text or a number operand.')
ASSUMPTIONS = [
    'scalar arguments only (CSE arrays reaching these functions are expanded element-wise by cse_array_wrapper, not modelled)',
    'UPPER/LOWER are modelled for ASCII and Latin-1 letters; for all other code points only the idempotence oracle '
    'runs on the implementation (every code point in the thorough tier); Python str.upper/lower are idempotent on '
    'every single code point (checked), so characters such as U+00DF are inside the property and pass',
    'numbers given as text arguments are binary64 values (token = exact rational of the double) rendered by Python '
    'repr (model: Ops.renderNum, shortest round-trip digits, exponent notation, integral floats as ints); subnormals '
    'and inf/nan are not generated',
    'TEXT: a float stands for the decimal its shortest repr shows (|k| < 10^9, j <= 6); formats restricted to the '
    'canonical grammar %* [#,]*[0,]* (.0*#*)? %* (other mixes of the five symbols are outside the model)',
    'threads / ambient state: every family is also run on a brand-new threading.Thread and under a caller-modified '
    'decimal context (prec 6, half-even, all traps); locale (C) and the recursion limit are left as they are',
    'FIND of an empty needle: the model follows the code (position = start_num while start_num <= LEN+1)',
]
TRUSTED = ['modelled, not verified: str slicing/find/replace, re.sub, Decimal.quantize/format, float repr']
REQUIRED_BUCKETS = ['lookalike', 'thread', 'ambient-context', 'float-as-text', 'left', 'right', 'mid', 'replace', 'find', 'substitute', 'trim', 'upper', 'lower', 'exact', 'len',
                    'concatenate', 'amp', 'text', 'text:tie', 'left:negative', 'mid:negative', 'number-as-text',
                    'fractional-count', 'malformed']
EXHAUSTIVE = False

ALPHA = ['a', 'A', 'b', ' ', '€']
# characters that look like (or are, for Python's str.split/strip) white space but are NOT the space character
LOOKALIKES = ['\t', '\n', '\r', '\x0b', '\x0c', '\x1c', '\x1d', '\x1e', '\x1f', '\x85', '\xa0', '\u1680'] + \
    [chr(c) for c in range(0x2000, 0x200b)] + ['\u2028', '\u2029', '\u202f', '\u205f', '\u3000', '\u200b', '\ufeff']
S_ = core.enc_text
_LOOK_CP = {str(ord(ch)) for ch in LOOKALIKES}
ERRS = ['e:' + t for t in ('na', 'div0', 'value')]


def n_(x):
    f = Fraction(x)
    return f'n:{f.numerator}/{f.denominator}'


def strings(maxlen):
    for n in range(maxlen + 1):
        for t in itertools.product(ALPHA, repeat=n):
            yield ''.join(t)


def case(fn, args, fl=(), via=None):
    c = {'fn': fn, 'args': list(args)}
    if fl:
        c['fl'] = list(fl)
    if via:
        c['via'] = via
    return c


# ---------------------------------------------------------------------------------------------------------------
# TEXT formats of the canonical grammar

INT_PARTS = ['0', '#', '#0', '00', '#,##0', '#,###', '#,#00', '000', '', '0,0']
FRAC_PARTS = [None, '', '0', '00', '#', '##', '0#', '000', '0##']
PCTS = [('', ''), ('', '%'), ('%', ''), ('', '%%')]


def formats():
    for ip in INT_PARTS:
        for fp in FRAC_PARTS:
            for pre, post in PCTS:
                yield pre + ip + ('' if fp is None else '.' + fp) + post


FMT_RE = re.compile(r'^(%*)([#0,]*)(?:(\.)([#0]*))?(%*)$')


def parse_fmt(f):
    m = FMT_RE.match(f)
    if not m:
        return None
    pre, ip, dot, fr, post = m.groups()
    ph = ip.replace(',', '')
    if not re.fullmatch(r'#*0*', ph) or (fr and not re.fullmatch(r'0*#*', fr)):
        return None
    if ',' in ip and (re.search(r'(^,)|(,$)|(,,)', ip) or ph.count('0') > 3):
        return None
    return dict(pre=len(pre), post=len(post), hashes=ph.count('#'), zeros=ph.count('0'), thousands=',' in ip,
                dot=bool(dot), fz=(fr or '').count('0'), fh=(fr or '').count('#'))


def text_values(tier, rng):
    ks = [0, 1, 5, 15, 25, 35, 45, 55, 105, 115, 125, 135, 285, 995, 999, 1005, 2675, 9995, 12345, 99995, 1234567,
          7, 49, 50, 51, 149, 150, 2500, 12, 4445, 4444, 5555, 999999, 100000, 123456789]
    out = set()
    for k in ks:
        for j in range(0, 5):
            out.add(Fraction(k, 10 ** j))
            if k % 5 == 0 or j < 2:
                out.add(Fraction(-k, 10 ** j))
    for _ in range(500 if tier == 'thorough' else 150):
        j = rng.randint(0, 6)
        out.add(Fraction(rng.randint(-10 ** rng.randint(1, 8), 10 ** rng.randint(1, 8)), 10 ** j))
        # an exact tie at a random digit
        out.add(Fraction(rng.randint(0, 99999) * 10 + 5, 10 ** rng.randint(1, 5)) * rng.choice((1, -1)))
    return sorted(out)


def float_pool(rng, thorough):
    """doubles whose rendering is delicate: repr needs 16-17 digits, exponent notation, big integral floats, -0.0"""
    xs = [1 / 3, 0.1 + 0.2, 1.1 * 1.1, 2 / 3 * 100, 1 / 7, -1 / 3, 100 / 3, 0.1, 0.7, 4.35, 2.675, 1e16, 1e15 + 0.5,
          1e-5, 2.5e-5, 1.5e-7, 1.5e300, 1e22, 1e23, -1e16, 123456789.12345679, 1234567.1, 0.000123, 1e-4, 9.999e-5,
          9007199254740993.0, 0.30000000000000004, 1e16 + 2.0, 12345678901234567.0, 1.2345678901234567e-10, 3.0,
          -0.0, 1e15, 999999999999999.9, 2 ** 0.5, 5e-300, 1.7976931348623157e308]
    for _ in range(400 if thorough else 25):
        xs.append(rng.random() * 10 ** rng.randint(-6, 17) * rng.choice((1, -1)))
        xs.append(rng.randint(1, 999) / rng.randint(1, 999))
    return xs


# ---------------------------------------------------------------------------------------------------------------

_TIER = ['quick']


def cases(tier, rng):
    thorough = tier == 'thorough'
    _TIER[0] = tier
    all4 = list(strings(4))
    short3 = [s for s in all4 if len(s) <= 3]
    short2 = [s for s in all4 if len(s) <= 2]
    len4 = [s for s in all4 if len(s) == 4]
    main = all4 if thorough else short3 + rng.sample(len4, 120)
    rng_n = list(range(-1, 11))
    count = [0]

    def via(step):
        count[0] += 1
        return 'f' if count[0] % step == 0 else None

    # --- LEFT / RIGHT: every string x every n, and the default count
    for s in main:
        for fn in ('left', 'right'):
            yield case(fn, [S_(s)])
            for n in rng_n:
                yield case(fn, [S_(s), n_(n)], via=via(97))
    # --- MID: every string x every (n, k)
    for s in (main if thorough else short3 + rng.sample(len4, 30)):
        for n in rng_n:
            for k in rng_n:
                yield case('mid', [S_(s), n_(n), n_(k)], via=via(997))
    # --- REPLACE
    reps = ['', 'x', 'a€']
    for s in (short3 if thorough else short2 + rng.sample([x for x in short3 if len(x) == 3], 40)):
        for n in rng_n:
            for k in rng_n:
                for t in reps:
                    yield case('replace', [S_(s), n_(n), n_(k), S_(t)], via=via(997))
    if thorough:
        for s in len4:
            for _ in range(30):
                yield case('replace', [S_(s), n_(rng.choice(rng_n)), n_(rng.choice(rng_n)), S_(rng.choice(reps))])
    # --- FIND: needle up to 2 x haystack x start
    for f in short2:
        for s in (all4 if thorough else short3):
            yield case('find', [S_(f), S_(s)], via=via(997))
            for st in range(-1, 6):
                yield case('find', [S_(f), S_(s), n_(st)])
    # --- SUBSTITUTE
    news = ['', 'x', 'aa'] if thorough else ['x', 'aa']
    for old in short2:
        for s in (short3 if not thorough else short3 + rng.sample(len4, 200)):
            for new in news:
                yield case('substitute', [S_(s), S_(old), S_(new)], via=via(997))
                for inst in range(0, 5):
                    yield case('substitute', [S_(s), S_(old), S_(new), n_(inst)])
    # --- unary functions on every string; longer random strings rich in spaces
    longer = set()
    for _ in range(20000 if thorough else 1500):
        longer.add(''.join(rng.choice(ALPHA + [' ', ' ', 'a']) for _ in range(rng.randint(5, 8))))
    longer = sorted(longer)
    for s in all4 + longer:
        for fn in ('trim', 'upper', 'lower', 'len'):
            yield case(fn, [S_(s)], via=via(497))
    for s in ['é', 'É', 'àB ç', '×÷', 'ÀÞ']:
        for fn in ('upper', 'lower', 'trim', 'len'):
            yield case(fn, [S_(s)])
    # random slicing on the longer strings
    for s in longer[:: (1 if thorough else 3)]:
        n, k = rng.choice(rng_n), rng.choice(rng_n)
        yield case('left', [S_(s), n_(n)])
        yield case('right', [S_(s), n_(k)])
        yield case('mid', [S_(s), n_(n), n_(k)])
        yield case('replace', [S_(s), n_(n), n_(k), S_(rng.choice(reps))])
        f = rng.choice(short2)
        yield case('find', [S_(f), S_(s), n_(rng.randint(-1, 9))])
        yield case('substitute', [S_(s), S_(f), S_('x')] + ([n_(rng.randint(0, 4))] if rng.random() < .6 else []))
    # --- EXACT on pairs
    for a in short2:
        for b in short2:
            yield case('exact', [S_(a), S_(b)], via=via(197))
    # --- CONCATENATE and & on pairs from a pool of kinds; n-ary CONCATENATE
    pool = [(S_(''), 0), (S_('a'), 0), (S_('A b'), 0), (S_(' €'), 0), (n_(3), 0), (n_(3), 1), (n_(-12), 0),
            (n_(Fraction(5, 2)), 0), (n_(Fraction(-1, 2)), 0), (n_(0), 0), ('b:1', 0), ('b:0', 0), ('z', 0),
            ('e:na', 0), ('e:div0', 0)]
    for (a, fa) in pool:
        for (b, fb) in pool:
            fl = [i for i, f in enumerate((fa, fb)) if f]
            yield case('concatenate', [a, b], fl=fl)
            yield case('amp', [a, b], fl=fl)
            yield case('exact', [a, b], fl=fl)
    for _ in range(300):
        picks = [rng.choice(pool) for _ in range(rng.randint(0, 5))]
        yield case('concatenate', [p[0] for p in picks], fl=[i for i, p in enumerate(picks) if p[1]],
                   via='f' if picks and rng.random() < .2 else None)
    # --- numbers where text is expected ("3, not 3.0")
    nums = [(n_(0), 0), (n_(3), 0), (n_(3), 1), (n_(-3), 1), (n_(12), 0), (n_(1200), 1), (n_(Fraction(5, 2)), 0),
            (n_(Fraction(-1, 2)), 0), (n_(Fraction(1, 8)), 0), (n_(Fraction(2469, 2)), 0), (n_(Fraction(3, 4)), 0),
            (n_(100), 1), (n_(-100), 0)]
    for (v, f) in nums:
        fl = [0] if f else []
        for fn in ('trim', 'upper', 'lower', 'len'):
            yield case(fn, [v], fl=fl, via='f' if fn == 'len' else None)
        for n in (0, 1, 2, 3, 6):
            yield case('left', [v, n_(n)], fl=fl)
            yield case('right', [v, n_(n)], fl=fl)
            yield case('mid', [v, n_(max(n, 1)), n_(2)], fl=fl)
            yield case('replace', [v, n_(max(n, 1)), n_(1), n_(7)], fl=fl)
        yield case('find', [S_('.'), v], fl=[1] if f else [])
        yield case('find', [n_(2), v], fl=[1] if f else [])
        yield case('substitute', [v, n_(2), n_(Fraction(1, 2))], fl=fl)
        yield case('exact', [v, S_('3')], fl=fl)
    # --- binary floats as text arguments: 16-17 significant digits, results of float arithmetic, exponent notation,
    #     integral floats of large magnitude, negative zero.  The token is the EXACT rational of the double.
    for x in float_pool(rng, thorough):
        tok = core.enc(x)
        integral = x == int(x)
        fl = [0] if integral else []
        nz = [0] if (x == 0 and str(x) == '-0.0') else []
        mk = lambda fn, args, fl=fl, nz=nz, **kw: dict(case(fn, args, fl=fl, **kw), **({'nz': nz} if nz else {}))  # noqa
        second = lambda fn, args: dict(case(fn, args, fl=[1] if integral else []), **({'nz': [1]} if nz else {}))  # noqa
        yield mk('concatenate', [tok])
        yield mk('concatenate', [tok, S_('')])
        yield mk('amp', [tok, S_('')])
        yield second('concatenate', [S_('a'), tok])
        yield second('amp', [S_('a'), tok])
        yield mk('concatenate', [tok, S_('')], via='f')
        for fn in ('trim', 'upper', 'lower', 'len'):
            yield mk(fn, [tok])
        yield mk('len', [tok], via='f')
        yield mk('exact', [tok, S_(repr(x))])
        yield mk('exact', [tok, S_('%.15g' % x)])
        yield dict(case('exact', [tok, tok], fl=[0, 1] if integral else []), **({'nz': [0, 1]} if nz else {}))
        for n in (0, 1, 2, 3, 5, 15, 16, 17, 18, 19, 25, 400):
            yield mk('left', [tok, n_(n)])
            yield mk('right', [tok, n_(n)])
            yield mk('mid', [tok, n_(n + 1), n_(400)])
            yield mk('mid', [tok, n_(max(n, 1)), n_(3)])
        yield mk('replace', [tok, n_(3), n_(2), S_('x')])
        yield mk('replace', [tok, n_(17), n_(5), S_('')])
        for needle in ('.', '3', 'e', '-', '04', '33333'):
            yield second('find', [S_(needle), tok])
            yield second('find', [S_(needle), tok, n_(10)])
            yield mk('substitute', [tok, S_(needle), S_('x')])
            yield mk('substitute', [tok, S_(needle), S_('x'), n_(2)])
    # --- whitespace LOOK-ALIKES are ordinary characters (only U+0020 is a space for TRIM): alone, doubled, at the
    #     ends, between words, mixed with real spaces -- through TRIM and every slicing / search function
    for ch in LOOKALIKES:
        pats = [ch, ch + ch, ch + 'a', 'a' + ch, 'a' + ch + 'b', 'a' + ch + ch + 'b', ' ' + ch + ' ', 'a ' + ch + ' b',
                ch + ' a  b ' + ch, 'a' + ch + ' ' + ch + 'b', '  ' + ch + ch + '  a', 'a ' + ch]
        for t in pats:
            yield case('trim', [S_(t)])
            for fn in ('upper', 'lower', 'len'):
                yield case(fn, [S_(t)])
            for n in (0, 1, 2, 3):
                yield case('left', [S_(t), n_(n)])
                yield case('right', [S_(t), n_(n)])
                yield case('mid', [S_(t), n_(n + 1), n_(2)])
            yield case('replace', [S_(t), n_(2), n_(1), S_(ch)])
            for f in (ch, ' ', 'b', ch + ch):
                yield case('find', [S_(f), S_(t)])
                yield case('find', [S_(f), S_(t), n_(2)])
                yield case('substitute', [S_(t), S_(f), S_('x')])
                yield case('substitute', [S_(t), S_(f), S_(' '), n_(2)])
            yield case('exact', [S_(t), S_(t.replace(ch, ' '))])
            yield case('concatenate', [S_(t), S_(ch)])
            yield case('amp', [S_(t), S_(ch)])
        yield case('trim', [S_('a' + ch + ' b')], via='f')
        yield case('trim', [S_(ch + ' a ' + ch)], via='f')
    mixed = ''.join(LOOKALIKES)
    for t in (mixed, ' ' + mixed + ' ', mixed[:9] + '  ' + mixed[9:], ' \t a\n \n b\xa0 '):
        for fn in ('trim', 'upper', 'lower', 'len'):
            yield case(fn, [S_(t)])
    # --- fractional counts (truncated like Excel; negative ones are #VALUE!)
    fr = [Fraction(1, 2), Fraction(3, 2), Fraction(11, 4), Fraction(-1, 2), Fraction(41, 4), Fraction(-3, 2),
          Fraction(1, 4), Fraction(3, 4)]
    for s in ['', 'a', 'ab A', 'a€b a']:
        for q in fr:
            yield case('left', [S_(s), n_(q)])
            yield case('right', [S_(s), n_(q)], via='f')
            yield case('find', [S_('a'), S_(s), n_(q)])
            yield case('substitute', [S_(s), S_('a'), S_('x'), n_(q)])
            for q2 in fr:
                yield case('mid', [S_(s), n_(q), n_(q2)])
                yield case('replace', [S_(s), n_(q), n_(q2), S_('x')])
    # --- malformed stream: every kind in every position
    odd = [S_('2'), S_(' 2'), S_('2.5'), S_('x'), S_(''), S_('TRUE'), S_('false'), S_('-1'), S_('+1'), 'b:1', 'b:0',
           'z'] + ERRS
    base = {'left': [S_('ab A'), n_(2)], 'right': [S_('ab A'), n_(2)], 'mid': [S_('ab A'), n_(2), n_(2)],
            'replace': [S_('ab A'), n_(2), n_(1), S_('x')], 'find': [S_('b'), S_('ab A'), n_(1)],
            'substitute': [S_('ab Ab'), S_('b'), S_('x'), n_(2)], 'trim': [S_(' a ')], 'upper': [S_('a')],
            'lower': [S_('A')], 'exact': [S_('a'), S_('a')], 'len': [S_('ab')]}
    for fn, args in base.items():
        for i in range(len(args)):
            for o in odd:
                a = list(args)
                a[i] = o
                yield case(fn, a, via='f' if o in ('z', 'b:1', 'e:na') else None)
        for o1 in ERRS:               # two errors: which one wins
            for o2 in ERRS:
                if o1 != o2 and len(args) >= 2:
                    for i, j in itertools.combinations(range(len(args)), 2):
                        a = list(args)
                        a[i], a[j] = o1, o2
                        yield case(fn, a)
    # --- TEXT
    fmts = list(formats())
    vals = text_values(tier, rng)
    for x in vals:
        for f in (fmts if thorough else rng.sample(fmts, 60)):
            yield case('text', [n_(x), S_(f)], via=via(1499))
    for f in fmts:                              # every format on the classic ties, quick tier too
        for x in (Fraction(5, 2), Fraction(1, 8), Fraction(-5, 2), Fraction(285, 1000), Fraction(2675, 1000),
                  Fraction(0), Fraction(1234567891, 1000), Fraction(-1, 1000), Fraction(1, 2), Fraction(12)):
            yield case('text', [n_(x), S_(f)])
    for v in [S_('abc'), S_('x y'), S_('12'), S_('1.5'), S_(''), 'b:1', 'b:0', 'z', 'e:na', n_(7)]:
        for f in ['0', '0.00', '#,##0', '%', '', '0%']:
            yield case('text', [v, S_(f)])
        yield case('text', [v, 'e:div0'])
    yield case('text', [n_(Fraction(5, 2)), n_(0)])       # a number as format: rendered "0"
    long_fmts = ['0.' + '0' * 25, '#,##0.' + '0' * 20 + '#' * 10, '0.' + '0' * 30 + '%']
    long_vals = [Fraction(123456789125, 1000), Fraction(1, 8), Fraction(-987654321987125, 1000), Fraction(5, 2)]
    for f in long_fmts:                          # more than 28 significant digits requested
        for x in long_vals:
            yield case('text', [n_(x), S_(f)])
    # --- the same answers on a brand-new thread and under a caller-modified ambient decimal context: a
    #     deterministic slice of every family, the tie-rich TEXT cases first (implementation side only)
    ties = (Fraction(5, 2), Fraction(1, 8), Fraction(-5, 2), Fraction(285, 1000), Fraction(2675, 1000), Fraction(1, 2),
            Fraction(1234567891, 1000), Fraction(35, 10), Fraction(1005, 1000), Fraction(0))
    slice_ = [case('text', [n_(x), S_(f)]) for f in fmts for x in ties]
    slice_ += [case('text', [n_(x), S_(f)]) for f in long_fmts for x in long_vals]
    slice_ += [case('text', [n_(Fraction(5, 2)), S_('0')], via='f'), case('text', [n_(Fraction(1, 8)), S_('0.00')], via='f')]
    for s_ in ['', 'ab A', ' a€  b ', 'aaaa']:
        slice_ += [case('left', [S_(s_), n_(2)]), case('right', [S_(s_), n_(3)]), case('mid', [S_(s_), n_(2), n_(2)]),
                   case('replace', [S_(s_), n_(2), n_(1), S_('x')]), case('find', [S_('a'), S_(s_), n_(2)]),
                   case('find', [S_('a'), S_(s_), n_(0)]), case('substitute', [S_(s_), S_('aa'), S_('x')]),
                   case('substitute', [S_(s_), S_('a'), S_('x'), n_(2)]), case('trim', [S_(s_)]),
                   case('upper', [S_(s_)]), case('lower', [S_(s_)]), case('len', [S_(s_)]),
                   case('exact', [S_(s_), S_('ab a')]), case('concatenate', [S_(s_), n_(Fraction(5, 2)), 'b:1']),
                   case('amp', [S_(s_), n_(3)]), case('left', [S_(s_), n_(-1)]), case('right', [S_(s_), n_(Fraction(1, 2))]),
                   case('trim', [S_(s_)], via='f'), case('find', [S_('a'), S_(s_)], via='f')]
    for x in (1 / 3, 0.1 + 0.2, 1e16, 1e-5, 2.5):
        slice_ += [case('left', [core.enc(x), n_(5)]), case('len', [core.enc(x)]),
                   case('concatenate', [core.enc(x), S_('')]), case('amp', [core.enc(x), S_('')]),
                   case('text', [core.enc(2.5), S_('0')])]
    heavy = {n_(x) for x in ties[5:]}
    for env in ('thread', 'ctx', 'thread+ctx'):
        for c0 in slice_:
            if env == 'thread+ctx' and c0['fn'] == 'text' and c0['args'][0] in heavy and not thorough:
                continue              # quick tier: half of the ties in the combined environment
            yield dict(c0, env=env)


# ---------------------------------------------------------------------------------------------------------------
# implementation side

def _py(tok, as_float=False):
    v = core.dec(tok)
    if isinstance(v, Fraction):
        if v.denominator == 1 and not as_float:
            return int(v)
        return float(v)
    return v


def _pyargs(c):
    fl = set(c.get('fl', ()))
    nz = set(c.get('nz', ()))
    return [-0.0 if i in nz else _py(t, i in fl) for i, t in enumerate(c['args'])]


XL = {'left': 'LEFT', 'right': 'RIGHT', 'mid': 'MID', 'replace': 'REPLACE', 'find': 'FIND',
      'substitute': 'SUBSTITUTE', 'trim': 'TRIM', 'upper': 'UPPER', 'lower': 'LOWER', 'exact': 'EXACT', 'len': 'LEN',
      'text': 'TEXT', 'concatenate': 'CONCATENATE'}
LIB = {'len': 'len_'}
_FCACHE = {}
_CELLS = {}


def _formula(template):
    """evaluate a formula over the shared cell dict; compiled formulas are cached per template"""
    from pycel import excelformula
    if template not in _FCACHE:
        def ev(addr):
            return _CELLS.get(str(addr).split('!')[-1].replace('$', ''))
        ctx = excelformula.ExcelFormula.build_eval_context(ev, ev)
        _FCACHE[template] = (ctx, excelformula.ExcelFormula(template))
    ctx, f = _FCACHE[template]
    return ctx(f)


def _hostile_context():
    """a caller-side decimal context the library must not depend on: 6 digits, half-even, every signal trapped"""
    import decimal
    return decimal.Context(prec=6, rounding=decimal.ROUND_HALF_EVEN,
                           traps=[decimal.Inexact, decimal.Rounded, decimal.InvalidOperation, decimal.DivisionByZero,
                                  decimal.Overflow, decimal.Underflow, decimal.Subnormal, decimal.Clamped])


def _run_env(env, f):
    """run f under the case's ambient environment: a brand-new thread and/or a modified ambient decimal context
    (restored afterwards; locale and recursion limit are left alone)"""
    import decimal
    import threading
    if not env:
        return f()
    if 'ctx' in env:
        inner = f

        def f():   # noqa
            with decimal.localcontext(_hostile_context()):
                return inner()
    if 'thread' not in env:
        return f()
    box = {}

    def run():
        try:
            box['r'] = f()
        except BaseException as exc:   # noqa
            box['e'] = exc
    t = threading.Thread(target=run, name='c20-worker')
    t.start()
    t.join()
    if 'e' in box:
        raise box['e']
    return box['r']


def impl(c):
    return _run_env(c.get('env'), lambda: _impl(c))


def _impl(c):
    args = _pyargs(c)
    fn = c['fn']
    if fn == 'amp' or c.get('via') == 'f':
        _CELLS.clear()
        names = []
        for i, a in enumerate(args):
            names.append(f'{chr(65 + i)}1')
            _CELLS[names[-1]] = a
        if fn == 'amp':
            return core.enc(_formula('=A1&B1'))
        return core.enc(_formula(f'={XL[fn]}({",".join(names)})'))
    return core.enc(pyc.lib_call(LIB.get(fn, fn), *args))


def model_lines(c):
    return ['c20 ' + c['fn'] + ''.join(' ' + a for a in c['args'])]


def _kinds(c):
    return [a[0] for a in c['args']]


NUM_POS = {'left': (1,), 'right': (1,), 'mid': (1, 2), 'replace': (1, 2), 'find': (2,), 'substitute': (3,)}


def governed(c):
    """the property speaks about texts (numbers by their rendering) and numeric positions; how text, logicals,
    blanks and error values are coerced in any position is the code's business (model follows the code)"""
    fn = c['fn']
    for i, a in enumerate(c['args']):
        k = a[0]
        if i in NUM_POS.get(fn, ()):
            if k != 'n':
                return False
        elif k not in 'sn':
            return False
    if fn == 'replace':
        q = core.dec(c['args'][2])
        if -1 < q < 0:          # the code truncates before testing the sign; Excel's answer is not in the property
            return False
    if fn == 'text':
        if c['args'][1][0] != 's' or c['args'][0][0] != 'n':
            return False
    return True


# ---------------------------------------------------------------------------------------------------------------
# oracles: the property over implementation outputs only

def _call(fn, *args):
    try:
        return core.enc(pyc.lib_call(LIB.get(fn, fn), *args))
    except Exception as exc:   # noqa
        return core.canon_exc(exc)


def _render(p):
    """the oracle's own statement of the Excel rendering of a scalar used as text (3, not 3.0)"""
    if isinstance(p, str):
        return p
    if isinstance(p, bool):
        return 'TRUE' if p else 'FALSE'
    if p is None:
        return ''
    if isinstance(p, float) and p == int(p):
        return str(int(p))
    return repr(p)


def _txt(tok):
    return core.dec(tok) if tok.startswith('s:') else None


def ref_subst_all(s, old, new):
    if not old:
        return s
    out, i = [], 0
    while i < len(s):
        if s[i:i + len(old)] == old:
            out.append(new)
            i += len(old)
        else:
            out.append(s[i])
            i += 1
    return ''.join(out)


def ref_subst_nth(s, old, new, n):
    if not old:
        return s
    i, seen = 0, 0
    while i <= len(s) - len(old):
        if s[i:i + len(old)] == old:
            seen += 1
            if seen == n:
                return s[:i] + new + s[i + len(old):]
            i += len(old)
        else:
            i += 1
    return s


def text_oracle(x, f, out):
    """the TEXT result for decimal x and canonical format f must denote the half-away rounding of |x|*100^p"""
    F = parse_fmt(f)
    if F is None or not out.startswith('s:'):
        return f'TEXT gave {core.show(out)}'
    if F['hashes'] + F['zeros'] + F['fz'] + F['fh'] == 0 and not F['dot']:
        return None
    s = core.dec(out)
    d = F['fz'] + F['fh'] if F['dot'] else 0
    scaled = abs(x) * 100 ** (F['pre'] + F['post']) * 10 ** d          # exact rational, in units of 10^-d
    want = (2 * scaled.numerator + scaled.denominator) // (2 * scaled.denominator)   # nearest, ties away from zero
    body = s
    if x < 0:
        if not body.startswith('-'):
            return f'negative value rendered without sign: {s!r}'
        body = body[1:]
    if not (body.startswith('%' * F['pre']) and body.endswith('%' * F['post'])):
        return f'percent signs misplaced: {s!r}'
    body = body[F['pre']:len(body) - F['post']]
    ip, dot, fp = body.partition('.')
    if bool(dot) != F['dot']:
        return f'decimal point: {s!r}'
    if F['thousands']:
        groups = ip.split(',')
        if any(len(g) != 3 for g in groups[1:]) or not (1 <= len(groups[0]) <= 3 or ip == ''):
            return f'grouping: {s!r}'
        ip = ip.replace(',', '')
    if not re.fullmatch(r'[0-9]*', ip) or not re.fullmatch(r'[0-9]*', fp):
        return f'non-digit in {s!r}'
    if len(fp) > d or len(fp) < F['fz'] or len(ip) < F['zeros']:
        return f'digit count: {s!r}'
    got = int(ip or '0') * 10 ** d + int(fp.ljust(d, '0') or '0')
    if got != want:
        return f'TEXT({x}, {f!r}) = {s!r} but the half-away rounding to {d} places is {want} units of 10^-{d}'
    return None


def oracles(results):
    idx = {}
    for r in results:
        c = r.case
        if c.get('via') is None:
            idx[(c['fn'], tuple(c['args']), tuple(c.get('fl', ())))] = r.impl
    for r in results:
        c, out = r.case, r.impl
        fn, a = c['fn'], c['args']
        if out.startswith('!'):
            yield c, f'{fn} raised / returned a non-Excel value: {out}'
            continue
        if not governed(c):
            continue
        py = _pyargs(c)
        texts = [_render(p) for p in py]
        if fn in ('left', 'right') and len(a) == 2:
            s, q = texts[0], core.dec(a[1])
            if q < 0:
                if out != 'e:value':
                    yield c, f'{fn} with a negative count gave {core.show(out)}'
                continue
            n = int(q)
            if fn == 'left':
                rest = _call('mid', py[0], n + 1, len(s))
                if _txt(out) is None or _txt(rest) is None or _txt(out) + _txt(rest) != s:
                    yield c, f'LEFT(s,{n}) & MID(s,{n + 1},LEN) = {core.show(out)} & {core.show(rest)} ≠ s'
            else:
                if _txt(out) != s[max(0, len(s) - n):]:
                    yield c, f'RIGHT(s,{n}) = {core.show(out)} is not the last {n} characters'
        elif fn == 'mid':
            s, p, k = texts[0], core.dec(a[1]), core.dec(a[2])
            if p < 1 or k < 0:
                if out != 'e:value':
                    yield c, f'MID with start {p} count {k} gave {core.show(out)}'
            elif _txt(out) != s[int(p) - 1:int(p) - 1 + int(k)]:
                yield c, f'MID(s,{p},{k}) = {core.show(out)}'
        elif fn == 'replace':
            s, p, k, t = texts[0], int(core.dec(a[1])), int(core.dec(a[2])), texts[3]
            if p < 1 or k < 0:
                if out != 'e:value':
                    yield c, f'REPLACE with start {p} count {k} gave {core.show(out)}'
                continue
            l, m = _call('left', py[0], p - 1), _call('mid', py[0], p + k, len(s))
            if _txt(out) is None or _txt(l) is None or _txt(m) is None or _txt(out) != _txt(l) + t + _txt(m):
                yield c, f'REPLACE(s,{p},{k},t) = {core.show(out)} ≠ LEFT & t & MID = {core.show(l)} & t & {core.show(m)}'
        elif fn == 'find':
            f, s = texts[0], texts[1]
            st = int(core.dec(a[2])) if len(a) > 2 else 1
            match = [q for q in range(max(st, 1), len(s) - len(f) + 2) if s[q - 1:q - 1 + len(f)] == f]
            if st < 1 or not match:
                if out != 'e:value':
                    yield c, f'FIND({f!r},{s!r},{st}) = {core.show(out)}: no position from {st} on matches (or start < 1)'
            else:
                if out != f'n:{match[0]}/1':
                    yield c, f'FIND({f!r},{s!r},{st}) = {core.show(out)}, first matching position is {match[0]}'
                elif f and _txt(_call('mid', py[1], match[0], len(f))) != f:
                    yield c, 'MID(s, FIND, LEN f) ≠ f'
        elif fn == 'substitute':
            s, old, new = texts[0], texts[1], texts[2]
            if len(a) == 3:
                want = core.enc(ref_subst_all(s, old, new))
            else:
                i = int(core.dec(a[3]))
                want = 'e:value' if i <= 0 else core.enc(ref_subst_nth(s, old, new, i))
            if out != want:
                yield c, f'SUBSTITUTE = {core.show(out)}, leftmost non-overlapping reference gives {core.show(want)}'
        elif fn == 'concatenate' and len(a) == 2:
            other = idx.get(('amp', tuple(a), tuple(c.get('fl', ()))))
            if other is not None and other != out:
                yield c, f'CONCATENATE = {core.show(out)} but & = {core.show(other)}'
        elif fn == 'trim':
            s, t = texts[0], _txt(out)
            if t is None or t.startswith(' ') or t.endswith(' ') or '  ' in t or \
                    [w for w in t.split(' ') if w] != [w for w in s.split(' ') if w]:
                yield c, f'TRIM({s!r}) = {core.show(out)}'
            elif _call('trim', t) != out:
                yield c, 'TRIM is not idempotent here'
        elif fn in ('upper', 'lower'):
            t = _txt(out)
            if t is None or _call(fn, t) != out:
                yield c, f'{fn.upper()} is not idempotent on {texts[0]!r}'
        elif fn == 'exact':
            if out != ('b:1' if texts[0] == texts[1] else 'b:0'):
                yield c, f'EXACT({texts[0]!r},{texts[1]!r}) = {core.show(out)}'
        elif fn == 'len':
            if out != f'n:{len(texts[0])}/1':
                yield c, f'LEN = {core.show(out)} but the value renders as {texts[0]!r}'
        elif fn == 'text':
            msg = text_oracle(core.dec(a[0]), core.dec(a[1]), out)
            if msg:
                yield c, msg
    # the result may not depend on the calling thread or on the caller's ambient decimal context
    plain = {}
    for r in results:
        c = r.case
        if not c.get('env'):
            plain[json.dumps({k: v for k, v in c.items()}, sort_keys=True)] = r.impl
    for r in results:
        c = r.case
        if c.get('env'):
            key = json.dumps({k: v for k, v in c.items() if k != 'env'}, sort_keys=True)
            base = plain.get(key)
            if base is None:
                base = core.safe_impl(sys.modules[__name__], {k: v for k, v in c.items() if k != 'env'})
            if base != r.impl:
                yield c, (f'{c["fn"]} depends on its environment ({c["env"]}): {core.show(r.impl)} there, '
                          f'{core.show(base)} on the importing thread with the default decimal context')
    # float arithmetic inside the formula: CONCATENATE(x,"") = x&"" and the slicing partition against x&""
    for e in ('1/3', '0.1+0.2', '1.1*1.1', '2/3*100', '1/7', '10/4', '2^0.5', '1/3*1E+20', '1/3/100000'):
        try:
            amp = pyc.eval_formula(f'=({e})&""')
            cat = pyc.eval_formula(f'=CONCATENATE({e},"")')
            part = pyc.eval_formula(f'=LEFT({e},3)&MID({e},4,400)')
            rgt = pyc.eval_formula(f'=LEFT({e},LEN(({e})&"")-2)&RIGHT({e},2)')
            exa = pyc.eval_formula(f'=EXACT({e},({e})&"")')
            low = pyc.eval_formula(f'=LOWER({e})')
        except Exception as exc:   # noqa
            yield case('concatenate', [S_('=' + e)]), f'formula over {e} raised {type(exc).__name__}'
            continue
        if not (amp == cat == part == rgt == low and exa is True):
            yield case('concatenate', [S_('=' + e)]), \
                (f'x = {e}: x&"" = {amp!r}, CONCATENATE(x,"") = {cat!r}, LEFT&MID = {part!r}, LEFT&RIGHT = {rgt!r}, '
                 f'LOWER = {low!r}, EXACT(x, x&"") = {exa!r}')
    # idempotence of UPPER / LOWER / TRIM on the implementation alone, beyond the model's alphabet
    cps = range(0x110000) if _TIER[0] == 'thorough' else itertools.chain(range(0x800), range(0x1E00, 0x2200), range(0xFB00, 0xFB10))
    for cp in cps:
        if 0xD800 <= cp < 0xE000:
            continue
        ch = chr(cp)
        for fn, ctx in (('upper', ch), ('lower', ch), ('lower', 'a' + ch), ('upper', ch + 'a'), ('lower', ch + ' a')):
            once = pyc.lib_call(fn, ctx)
            if once not in core.ERR_TAGS and pyc.lib_call(fn, once) != once:
                yield case(fn, [S_(ctx)]), f'{fn.upper()} not idempotent on U+{cp:04X} in {ctx!r}'


def finding_key(c, impl_out, model_out):
    if c['fn'] == 'len' and (c.get('fl') == [0] or c.get('nz') == [0]) and c['args'][0].startswith('n:') and c['args'][0].endswith('/1'):
        return 'len.integral-float'
    return None


def nontrivial(c):
    return any((a.startswith('s:') and a != 's:') or a.startswith('n:') for a in c['args'][:1]) or \
        (c['fn'] in ('find', 'concatenate', 'amp', 'exact') and len(c['args']) > 1 and c['args'][1] not in ('s:', 'z'))


def bucket(c):
    if c.get('env'):
        return 'thread' if 'thread' in c['env'] else 'ambient-context'
    fn, a = c['fn'], c['args']
    kinds = _kinds(c)
    if fn != 'text' and a and a[0].startswith('s:') and _LOOK_CP & set(a[0][2:].split(',')) and governed(c):
        return 'lookalike'
    if fn == 'text':
        if kinds[0] == 'n' and kinds[1] == 's':
            x, F = core.dec(a[0]), parse_fmt(core.dec(a[1]))
            if F:
                d = F['fz'] + F['fh'] if F['dot'] else 0
                sc = abs(x) * 100 ** (F['pre'] + F['post']) * 10 ** d
                if sc.denominator == 2:
                    return 'text:tie'
        return 'text'
    if not governed(c):
        return 'malformed'
    pos = NUM_POS.get(fn, ())
    qs = [core.dec(a[i]) for i in pos if i < len(a)]
    if any(q.denominator != 1 for q in qs):
        return 'fractional-count'
    if fn in ('left', 'right', 'mid', 'replace') and any(q < 0 for q in qs):
        return ('left' if fn in ('left', 'right') else 'mid') + ':negative'
    if any(k == 'n' and core.dec(a[i]).denominator not in (1, 2, 4, 8) for i, k in enumerate(kinds)
           if i not in pos) or c.get('nz'):
        return 'float-as-text'
    if kinds and kinds[0] == 'n' and fn not in ('concatenate', 'amp', 'exact'):
        return 'number-as-text'
    return fn

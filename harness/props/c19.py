"""C19 — rounding family (excellib.py round_, _round, roundup, rounddown, trunc, int_, mod, ceiling*, floor*, even, odd).
DESIGN.md §7 C19.

A case is {'fn': <name>, 'args': [<protocol token>, ...]}.  A number token n:p/q is an exact DECIMAL k/10^j; the
implementation receives the float nearest to it (an int when integral), whose shortest repr is that decimal (checked
when the case is generated), the model receives the decimal itself.  A numeric result agrees when the implementation's
float is the float nearest to the model's exact decimal result.
"""
import functools
import math
from decimal import Decimal
from fractions import Fraction

from harness import core, pyc

ID = 'C19'
LEAN_MODULE = 'Pycel.Props.C19'
NS = 'Pycel.Rounding.'
THEOREMS = [NS + t for t in (
    'unit_pos', 'C19_round_multiple', 'C19_round_half_unit', 'C19_round_nearest', 'C19_round_tie_away',
    'C19_round_sign', 'C19_rounddown_multiple', 'C19_roundup_multiple', 'C19_bracket', 'C19_bracket_tight',
    'C19_down_up_sign', 'C19_fix_multiples', 'C19_trunc_is_rounddown', 'C19_int_floor', 'C19_mod_identity',
    'C19_mod_sign', 'C19_floor_math_adjacent', 'C19_ceiling_math_adjacent', 'C19_precise_eq_math',
    'C19_floor_adjacent', 'C19_ceiling_adjacent', 'C19_significance_fix_multiples', 'C19_even', 'C19_odd',
    'C19_digits_truncated', 'C19_call', 'C19_defaults')]
DESIGN_REF = 'DESIGN.md §7 C19'
RULE = ('each function of the family called through its excel_math_func wrapper on scalars. Numbers are decimals '
        'k/10^j handed to pycel as the float whose shortest repr is that decimal. Deterministic core: every tie, '
        'near-tie (±10^-6..) and exact multiple for digits -6..6 and both signs through ROUND/ROUNDUP/ROUNDDOWN/TRUNC; '
        'every k/10^j of a small box through all 4 (and INT/EVEN/ODD); numbers × a signed significance pool (multiples, '
        'multiples ± one last digit) through MOD and the 6 CEILING/FLOOR variants with every mode; then random k up '
        'to 10^6, j 0..6, digits -6..6, and binary floats sampled by bit pattern / uniform (sent as their repr '
        'decimal). Malformed stream: blank, logical, text, error operands in every position, fractional digits, zero '
        'significance. Non-trivial = all operands numeric and the number is not already a multiple of the unit / '
        'significance (the function has to move it).')
ASSUMPTIONS = [
    'scalar arguments only (CSE array broadcasting of excel_math_func is not part of C19)',
    'a float argument stands for its shortest-repr decimal (Decimal(repr(x)) in the code); float(str) / '
    'Decimal.quantize / Fraction are correctly rounded (CPython contract)',
    'numeric text operands (read by Python float()) are not generated; text is only "", TRUE/FALSE, non-numeric',
    'digits within -6..6 (28-digit Decimal context precision is never exceeded)',
]
TRUSTED = ['modelled, not verified: CPython float<->decimal conversion (repr, float(Decimal)), Decimal.quantize, '
           'Fraction arithmetic, math.floor/ceil']
REQUIRED_BUCKETS = ['via-formula', 'round:tie', 'round:neg-digits-tie', 'round:other', 'roundup', 'rounddown', 'trunc', 'int', 'mod',
                    'ceiling', 'floor', 'ceiling_math', 'floor_math', 'ceiling_precise', 'floor_precise', 'even',
                    'odd', 'malformed', 'binary-float']
EXHAUSTIVE = False
EXPLANATION = ('Model = exact rational arithmetic on the decimal each float argument shows (shortest repr). An implementation '
               'result agrees when it is the float nearest to the exact decimal result, so binary artefacts of float '
               'scaling/division are disagreements inside the governed region (= violations). The oracles restate the '
               'property on implementation outputs alone: multiples of the unit/significance, half-unit distance and tie '
               'direction for ROUND, |ROUNDDOWN| <= |x| <= |ROUNDUP| and TRUNC = ROUNDDOWN on the same (x, d), fixing '
               'exact multiples, INT = floor, MOD sign and identity, adjacent bracketing multiple per CEILING/FLOOR '
               'variant and mode, EVEN/ODD parity, distance < 2 and sign. A sample of every stream also goes through '
               'a formula =FN(A1,B1,..) evaluated by ExcelFormula/build_eval_context (bucket via-formula).')

ROUND4 = ('round', 'roundup', 'rounddown', 'trunc')
SIG6 = ('ceiling', 'floor', 'ceiling_math', 'floor_math', 'ceiling_precise', 'floor_precise')
ALL_FNS = ROUND4 + ('int', 'mod') + SIG6 + ('even', 'odd')
ARITY = {'round': (1, 2), 'roundup': (2, 2), 'rounddown': (2, 2), 'trunc': (1, 2), 'int': (1, 1), 'mod': (2, 2),
         'ceiling': (2, 2), 'floor': (2, 2), 'ceiling_math': (1, 3), 'floor_math': (1, 3),
         'ceiling_precise': (1, 2), 'floor_precise': (1, 2), 'even': (1, 1), 'odd': (1, 1)}


# ---------------------------------------------------------------------------------------------------------------
# tokens

def tok(fr):
    fr = Fraction(fr)
    return f'n:{fr.numerator}/{fr.denominator}'


def dec_tok(k, j=0):
    return tok(Fraction(k, 10 ** j))


def _is_num(t):
    return t.startswith('n:')


@functools.lru_cache(maxsize=1 << 20)
def _fr(t):
    return core.dec(t)


def _py(t):
    """token -> the Python value pycel receives"""
    v = core.dec(t)
    if isinstance(v, Fraction):
        return int(v) if v.denominator == 1 else v.numerator / v.denominator
    return v


@functools.lru_cache(maxsize=1 << 20)
def _faithful(fr):
    """the float nearest to the decimal `fr` shows exactly that decimal as its shortest repr"""
    if fr.denominator == 1:
        return abs(fr) < 2 ** 53
    f = fr.numerator / fr.denominator
    return Fraction(Decimal(repr(f))) == fr


def float_decimal(f):
    """the decimal a float stands for: its shortest repr"""
    return Fraction(Decimal(repr(f)))


def case(fn, *args):
    return {'fn': fn, 'args': list(args)}


# ---------------------------------------------------------------------------------------------------------------
# generator

SIG_POOL = [Fraction(s) for s in ('1', '2', '3', '5', '7', '10', '100', '0.1', '0.2', '0.25', '0.5', '0.3', '0.7',
                                  '0.01', '0.05', '1.5', '2.5', '0.001', '12.5')]
MODES = [None, 'n:0/1', 'n:1/1', 'n:-1/1', 'b:1', 'b:0', 'n:1/2']


def _round_points(thorough, rng):
    """(x, d) pairs: ties, near-ties, exact multiples for every digit count, then a small box, then random"""
    pts = []
    for d in range(-6, 7):
        u = Fraction(10) ** (-d)
        ms = ([0, 1, 2, 3, 4, 7, 12, 25, 99, 250] if thorough else [0, 1, 2, 7, 12, 250]) + \
             [rng.randint(0, 10 ** 4) for _ in range(30 if thorough else 3)]
        for m in ms:
            tie = (2 * m + 1) * u / 2
            for base in (tie, m * u, (m + 1) * u):
                for delta in (0, 1, -1, 3, -4):
                    for jj in (6, 4, max(d + 2, 0)):
                        x = base + delta * Fraction(1, 10 ** jj)
                        if abs(x) * 10 ** 6 <= 10 ** 12 and (x * 10 ** 6).denominator == 1 and \
                                abs(x * 10 ** 6) <= 10 ** 13:
                            pts.append((x, d))
                            pts.append((-x, d))
    # small box, every k/10^j
    kmax = 1000 if thorough else 150
    for j in range(0, 4):
        for k in range(-kmax, kmax + 1):
            for d in range(-2, 4):
                pts.append((Fraction(k, 10 ** j), d))
    for _ in range(40000 if thorough else 4000):
        j = rng.randint(0, 6)
        pts.append((Fraction(rng.randint(-10 ** 6, 10 ** 6), 10 ** j), rng.randint(-6, 6)))
    return pts


def _binary_floats(thorough, rng):
    import struct
    out = []
    for _ in range(8000 if thorough else 600):
        kind = rng.random()
        if kind < 0.4:
            f = rng.uniform(-1000, 1000)
        elif kind < 0.7:
            f = rng.uniform(-1, 1) * 10 ** rng.randint(-4, 6)
        else:
            # random mantissa, exponent chosen so that 1e-5 <= |f| < 1e7
            e = rng.randint(1023 - 16, 1023 + 23)
            bits = (rng.getrandbits(1) << 63) | (e << 52) | rng.getrandbits(52)
            f = struct.unpack('>d', struct.pack('>Q', bits))[0]
        if 'e' in repr(f):
            continue
        out.append(f)
    # decimal-looking floats one ulp away from a short decimal
    for s in ('0.285', '2.675', '1.005', '0.29', '0.7', '2.5', '1.15', '8.325', '0.1', '0.3'):
        f = float(s)
        out.extend([math.nextafter(f, math.inf), math.nextafter(f, -math.inf)])
    return out


def _cases(tier, rng):
    thorough = tier == 'thorough'
    seen = set()

    def emit(fn, *args, src=None):
        key = (fn,) + args
        if key in seen:
            return None
        for a in args:
            if _is_num(a) and not _faithful(_fr(a)):
                return None
        seen.add(key)
        c = case(fn, *args)
        if src:
            c['src'] = src
        return c

    def out(c):
        return [c] if c is not None else []

    # --- ROUND / ROUNDUP / ROUNDDOWN / TRUNC
    for x, d in _round_points(thorough, rng):
        for fn in ROUND4:
            yield from out(emit(fn, tok(x), tok(d)))
    for k in range(-50, 51):
        for fn in ('round', 'trunc'):
            yield from out(emit(fn, dec_tok(k * 5, 1)))          # default digits
    # --- INT / EVEN / ODD
    kmax = 4000 if thorough else 300
    for j in range(0, 4):
        for k in range(-kmax, kmax + 1):
            for fn in ('int', 'even', 'odd'):
                yield from out(emit(fn, dec_tok(k, j)))
    for _ in range(20000 if thorough else 1500):
        t = dec_tok(rng.randint(-10 ** 6, 10 ** 6), rng.randint(0, 6))
        for fn in ('int', 'even', 'odd'):
            yield from out(emit(fn, t))
    # --- MOD and the six significance functions
    sigs = [s for p in SIG_POOL for s in (p, -p)]
    nums = set()
    for j in range(0, 3):
        for k in range(-(300 if thorough else 60), (300 if thorough else 60) + 1):
            nums.add(Fraction(k, 10 ** j))
    nums = sorted(nums)
    for s in sigs:
        local = set(nums if thorough else nums[::6])
        for m in list(range(-12, 13) if thorough else range(-6, 7)) + \
                [rng.randint(-5000, 5000) for _ in range(40 if thorough else 6)]:
            for delta in (0, 1, -1):
                for jj in (6, 3, 1):
                    local.add(m * s + delta * Fraction(1, 10 ** jj))
        for _ in range(400 if thorough else 20):
            local.add(Fraction(rng.randint(-10 ** 6, 10 ** 6), 10 ** rng.randint(0, 6)))
        for n in sorted(local):
            yield from out(emit('mod', tok(n), tok(s)))
            for fn in SIG6:
                yield from out(emit(fn, tok(n), tok(s)))
            if n.denominator <= 10:
                for fn in ('ceiling_math', 'floor_math'):
                    for mode in (MODES[1:] if thorough else ('n:0/1', 'n:1/1', 'b:1')):
                        yield from out(emit(fn, tok(n), tok(s), mode))
    for n in nums:
        for fn in ('ceiling_math', 'floor_math', 'ceiling_precise', 'floor_precise'):
            yield from out(emit(fn, tok(n)))                       # default significance
        for fn in SIG6 + ('mod',):
            yield from out(emit(fn, tok(n), 'n:0/1'))               # zero significance / divisor
    # integer MOD, small scope exhaustive
    r = 40 if thorough else 16
    for n in range(-r, r + 1):
        for d in range(-r, r + 1):
            yield from out(emit('mod', tok(n), tok(d)))
    # --- binary floats, sent as their repr decimal
    for f in _binary_floats(thorough, rng):
        x = tok(float_decimal(f))
        d = tok(rng.randint(-3, 6))
        for fn in ROUND4:
            yield from out(emit(fn, x, d, src='float'))
        for fn in ('int', 'even', 'odd'):
            yield from out(emit(fn, x, src='float'))
        s = tok(rng.choice(sigs))
        for fn in SIG6 + ('mod',):
            yield from out(emit(fn, x, s, src='float'))
    # --- malformed stream: operand kinds in every position, fractional digits
    odd_vals = ['z', 'b:1', 'b:0', 's:', core.enc_text('abc'), core.enc_text('TRUE'), core.enc_text('false'),
                core.enc_text('x1'), core.enc_text('#EMPTY!')] + ['e:' + t for t in core.TAG_ERRS]
    good = {0: ['n:25/1', 'n:-5/2', 'n:123/100'], 1: ['n:1/1', 'n:-1/1', 'n:2/1'], 2: ['n:1/1', 'n:0/1']}
    for fn in ALL_FNS:
        lo, hi = ARITY[fn]
        for n_args in range(lo, hi + 1):
            for pos in range(n_args):
                for v in odd_vals:
                    for pick in range(3):
                        args = [good[i][pick % len(good[i])] for i in range(n_args)]
                        args[pos] = v
                        yield from out(emit(fn, *args))
            for v in odd_vals[:4] + ['e:na']:
                for w in odd_vals[:5] + ['e:div0']:
                    if n_args >= 2:
                        args = [v, w] + ['n:1/1'] * (n_args - 2)
                        yield from out(emit(fn, *args))
    for fn in ROUND4:
        for x in ('n:12345/100', 'n:-12345/100', 'n:155/1', 'n:-25/1'):
            for d in ('n:3/2', 'n:-3/2', 'n:9/10', 'n:-9/10', 'n:1/2', 'n:-1/2', 'n:19/10', 'n:-11/10'):
                yield from out(emit(fn, x, d))


def cases(tier, rng):
    """every case through the wrapped library function; a deterministic sample (and the whole malformed stream of
    the quick tier) once more through a formula `=FN(A1,B1,..)` evaluated by ExcelFormula + build_eval_context"""
    step = 40 if tier == 'thorough' else 90
    i = 0
    for c in _cases(tier, rng):
        yield c
        i += 1
        if i % step == 0 or (not _all_numeric(c) and i % 11 == 0):
            yield dict(c, via='formula')


# ---------------------------------------------------------------------------------------------------------------
# implementation / model

def _pyname(fn):
    """Excel name -> Python name, through the live FunctionNode.func_map (ROUND -> round_, INT -> int_)"""
    from pycel.excelformula import FunctionNode
    return FunctionNode.func_map.get(fn, fn)


XL_NAME = {'ceiling_math': 'CEILING.MATH', 'floor_math': 'FLOOR.MATH', 'ceiling_precise': 'CEILING.PRECISE',
           'floor_precise': 'FLOOR.PRECISE'}


def impl(c):
    args = [_py(a) for a in c['args']]
    if c.get('via') == 'formula' or c.get('src') == 'corpus-formula':
        refs = ['A1', 'B1', 'C1'][:len(args)]
        formula = f"={XL_NAME.get(c['fn'], c['fn'].upper())}({','.join(refs)})"
        return core.enc(pyc.eval_formula(formula, dict(zip(refs, args))))
    return core.enc(pyc.lib_call(_pyname(c['fn']), *args))


def model_lines(c):
    return ['c19 ' + c['fn'] + ' ' + ' '.join(c['args'])]


def same(impl_out, model_out):
    if impl_out == model_out:
        return True
    if _is_num(impl_out) and model_out and _is_num(model_out):
        m = _fr(model_out)
        try:
            return Fraction(m.numerator / m.denominator) == _fr(impl_out)
        except OverflowError:
            return False
    return False


def _all_numeric(c):
    return all(_is_num(a) for a in c['args'])


def governed(c):
    """the property fixes the result whenever every operand is a number, the digits are integral and the call is not
    one of the error corners (zero / wrong-signed significance, zero divisor), which follow the code"""
    if not _all_numeric(c):
        return False
    a = [_fr(t) for t in c['args']]
    fn = c['fn']
    if fn in ROUND4:
        return len(a) == 1 or a[1].denominator == 1
    if fn in ('mod',) + SIG6 and len(a) >= 2:
        if a[1] == 0:
            return False
        if fn in ('ceiling', 'floor') and a[1] < 0 < a[0]:
            return False
    return True


# ---------------------------------------------------------------------------------------------------------------
# oracles: the property restated over implementation outputs only

def _impl_decimal(out):
    """implementation output token -> the decimal its float shows (None if not a number)"""
    if not _is_num(out):
        return None
    fr = _fr(out)
    if fr.denominator == 1:
        return fr
    return float_decimal(fr.numerator / fr.denominator)


def _is_multiple(r, u):
    return (r / u).denominator == 1


def _sgn(q):
    return (q > 0) - (q < 0)


def oracles(results):
    for r in results:
        c = r.case
        if r.impl.startswith('!'):
            yield c, f'{c["fn"]} raised / returned a non-Excel value: {r.impl}'
            continue
        if not governed(c):
            continue
        fn = c['fn']
        a = [_fr(t) for t in c['args']]
        res = _impl_decimal(r.impl)
        if res is None:
            yield c, f'{fn}{tuple(map(float, a))} on numbers gave {core.show(r.impl)}'
            continue
        x = a[0]
        if fn in ROUND4:
            d = int(a[1]) if len(a) > 1 else 0
            u = Fraction(10) ** (-d)
            if not _is_multiple(res, u):
                yield c, f'{fn}({float(x)},{d}) = {float(res)} is not a multiple of 10^{-d}'
            elif _is_multiple(x, u) and res != x:
                yield c, f'{fn}({float(x)},{d}) = {float(res)} moved an exact multiple'
            elif res != 0 and _sgn(res) != _sgn(x):
                yield c, f'{fn}({float(x)},{d}) = {float(res)} changed sign'
            elif fn == 'round':
                if abs(res - x) * 2 > u:
                    yield c, f'ROUND({float(x)},{d}) = {float(res)} is more than half a unit away'
                elif abs(res - x) * 2 == u and abs(res) < abs(x):
                    yield c, f'ROUND({float(x)},{d}) = {float(res)}: tie rounded toward zero'
            elif fn == 'roundup':
                if not (abs(x) <= abs(res) < abs(x) + u):
                    yield c, f'ROUNDUP({float(x)},{d}) = {float(res)} is not the next multiple away from zero'
            else:
                if not (abs(x) - u < abs(res) <= abs(x)):
                    yield c, f'{fn.upper()}({float(x)},{d}) = {float(res)} is not the next multiple toward zero'
        elif fn == 'int':
            if res != math.floor(x):
                yield c, f'INT({float(x)}) = {float(res)} is not the floor'
        elif fn == 'mod':
            dv = a[1]
            rb = _fr(r.impl)                     # the float itself: the remainder may need more than 17 digits
            if rb != 0 and _sgn(rb) != _sgn(dv):
                yield c, f'MOD({float(x)},{float(dv)}) = {float(rb)} has not the sign of the divisor'
            elif not abs(rb) <= abs(Fraction(_py(c['args'][1]))):
                yield c, f'MOD({float(x)},{float(dv)}) = {float(rb)} is not smaller than the divisor'
            elif abs(x - dv * math.floor(x / dv) - rb) * 2 > Fraction(math.ulp(float(rb))):
                yield c, f'MOD({float(x)},{float(dv)}) = {float(rb)}: n = d*INT(n/d) + MOD(n,d) fails'
        elif fn in SIG6:
            s = a[1] if len(a) > 1 else Fraction(1)
            mode = a[2] if len(a) > 2 else Fraction(0)
            if not _is_multiple(res, s):
                yield c, f'{fn}{tuple(map(float, a))} = {float(res)} is not a multiple of the significance'
                continue
            if _is_multiple(x, s) and res != x:
                yield c, f'{fn}{tuple(map(float, a))} = {float(res)} moved an exact multiple'
                continue
            # direction: up (toward +inf) or down
            if fn in ('ceiling_precise',):
                up = True
            elif fn == 'floor_precise':
                up = False
            elif fn == 'ceiling_math':
                up = not (mode != 0 and x < 0)
            elif fn == 'floor_math':
                up = (mode != 0 and x < 0)
            elif fn == 'ceiling':
                up = s > 0
            else:
                up = s < 0
            ok = (x <= res < x + abs(s)) if up else (x - abs(s) < res <= x)
            if not ok:
                yield c, f'{fn}{tuple(map(float, a))} = {float(res)} is not the adjacent multiple ' \
                         f'{"above" if up else "below"}'
        elif fn in ('even', 'odd'):
            par = 0 if fn == 'even' else 1
            if res.denominator != 1 or res % 2 != par:
                yield c, f'{fn.upper()}({float(x)}) = {float(res)} has the wrong parity'
            elif not (abs(x) <= abs(res) < abs(x) + 2) and not (fn == 'odd' and abs(x) < 1 and abs(res) == 1):
                yield c, f'{fn.upper()}({float(x)}) = {float(res)} is not the next one away from zero'
            elif res != 0 and x != 0 and _sgn(res) != _sgn(x):
                yield c, f'{fn.upper()}({float(x)}) = {float(res)} changed sign'
    # cross-function relations on the same (x, d)
    by_key = {}
    for r in results:
        c = r.case
        if c['fn'] in ROUND4 and governed(c) and _is_num(r.impl):
            d = int(_fr(c['args'][1])) if len(c['args']) > 1 else 0
            by_key.setdefault((c['args'][0], d), {})[c['fn']] = (r, _fr(r.impl))
    for (xt, d), g in by_key.items():
        xf = _py(xt)
        if 'rounddown' in g and 'roundup' in g:
            dn, up = g['rounddown'][1], g['roundup'][1]
            if not (abs(dn) <= abs(Fraction(xf)) <= abs(up)):
                yield g['rounddown'][0].case, f'|ROUNDDOWN| <= |x| <= |ROUNDUP| fails at ({xf},{d}): ' \
                                              f'{float(dn)}, {float(up)}'
        if 'rounddown' in g and 'trunc' in g and g['rounddown'][1] != g['trunc'][1]:
            yield g['trunc'][0].case, f'TRUNC({xf},{d}) = {float(g["trunc"][1])} differs from ROUNDDOWN = ' \
                                      f'{float(g["rounddown"][1])}'
        if 'round' in g and 'rounddown' in g and 'roundup' in g:
            rd = g['round'][1]
            if rd not in (g['rounddown'][1], g['roundup'][1]):
                yield g['round'][0].case, f'ROUND({xf},{d}) = {float(rd)} is neither ROUNDDOWN nor ROUNDUP'


# ---------------------------------------------------------------------------------------------------------------

def finding_key(c, impl_out, model_out):
    return None


def _unit_of(c):
    a = [_fr(t) for t in c['args']]
    fn = c['fn']
    if fn in ROUND4:
        return Fraction(10) ** (-(int(a[1]) if len(a) > 1 else 0))
    if fn in SIG6 or fn == 'mod':
        return a[1] if len(a) > 1 else Fraction(1)
    if fn == 'int':
        return Fraction(1)
    return Fraction(2)


def nontrivial(c):
    if not _all_numeric(c):
        return False
    u = _unit_of(c)
    if u == 0:
        return False
    return c['fn'] == 'odd' or not _is_multiple(_fr(c['args'][0]), u)


def bucket(c):
    fn = c['fn']
    if c.get('via') == 'formula':
        return 'via-formula'
    if not _all_numeric(c):
        return 'malformed'
    a = [_fr(t) for t in c['args']]
    if c.get('src') == 'float':
        return 'binary-float'
    if fn == 'round':
        d = int(a[1]) if len(a) > 1 else 0
        u = Fraction(10) ** (-d)
        if (a[0] / u * 2).denominator == 1 and (a[0] / u).denominator == 2:
            return 'round:neg-digits-tie' if d < 0 else 'round:tie'
        return 'round:other'
    return fn

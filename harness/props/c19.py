"""C19 — rounding family (excellib.py round_, _round, roundup, rounddown, trunc, int_, mod, ceiling*, floor*, even, odd).
DESIGN.md §7 C19.

A case is {'fn': <name>, 'args': [<protocol token>, ...]}.  A number token n:p/q is an exact DECIMAL k/10^j; the
implementation receives the float nearest to it (an int when integral), whose shortest repr is that decimal (checked
when the case is generated), the model receives the decimal itself.  A numeric result agrees when the implementation's
float is the float nearest to the model's exact decimal result.
"""
import functools
import math
import sys
from decimal import Decimal
from fractions import Fraction

from harness import core, pyc

ID = 'C19'
LEAN_MODULE = 'Pycel.Props.C19'
NS = 'Pycel.Rounding.'
THEOREMS = [NS + t for t in (
    'unit_pos', 'C19_round_multiple', 'C19_round_half_unit', 'C19_round_nearest', 'C19_round_tie_away',
    'C19_round_sign', 'C19_rounddown_multiple', 'C19_roundup_multiple', 'C19_bracket', 'C19_bracket_tight',
    'C19_down_up_sign', 'C19_fix_multiples', 'C19_trunc_is_rounddown', 'C19_int_floor', 'C19_mod_identity',
    'C19_mod_sign', 'C19_floor_math_adjacent', 'C19_ceiling_math_adjacent', 'C19_precise_eq_math',
    'C19_floor_adjacent', 'C19_ceiling_adjacent', 'C19_significance_fix_multiples', 'C19_even', 'C19_odd',
    'C19_digits_truncated', 'C19_call', 'C19_defaults', 'C19_idempotent', 'C19_odd_symmetry', 'C19_rounddown_mono', 'C19_round_mono')]
DESIGN_REF = 'DESIGN.md §7 C19'
RULE = ('each function of the family called through its excel_math_func wrapper on scalars. Numbers are decimals '
        'k/10^j handed to pycel as the float whose shortest repr is that decimal. Deterministic core: every tie, '
        'near-tie (±10^-6..) and exact multiple for digits -6..6 and both signs through ROUND/ROUNDUP/ROUNDDOWN/TRUNC; '
        'every k/10^j of a small box through all 4 (and INT/EVEN/ODD); numbers × a signed significance pool (multiples, '
        'multiples ± one last digit) through MOD and the 6 CEILING/FLOOR variants with every mode; then random k up '
        'to 10^6, j 0..6, digits -6..6, and binary floats sampled by bit pattern / uniform (sent as their repr '
        'decimal). Malformed stream: blank, logical, text, error operands in every position, fractional digits, zero '
        'significance. Totality block: digit counts 27..400 / -27..-400 and huge / tiny numbers through every '
        'function (a number or #NUM!, never an exception). Boundary block: doubles next to x.5 at every scale, whole numbers around 2^51..2^54 as int and as float, '
        'smallest / largest doubles, -0.0, digits 0 and ±1, every function. Sequence block: each unusual call (raises, error value, '
        'text / logical operand, zero significance, #NUM! corner, ±1e10 digits) runs as `prelude` in the same process '
        'right before each ordinary tie case of every function, and the other way round; only the last call is '
        'compared, so state leaking between calls shows on an ordinary case and the replay names the preceding call. '
        'Non-trivial = all operands numeric and the number is not already a multiple of the unit / '
        'significance (the function has to move it).')
ASSUMPTIONS = [
    'scalar arguments only (CSE array broadcasting of excel_math_func is not part of C19)',
    'a float argument stands for its shortest-repr decimal (Decimal(repr(x)) in the code); float(str) / '
    'Decimal.quantize / Fraction are correctly rounded (CPython contract)',
    'numeric text operands (read by Python float()) are not generated; text is only "", TRUE/FALSE, non-numeric',
    'digit counts up to ±400 and numbers from 1e-300 to 1.7e308 are compared (bucket extreme); beyond ±400 digits the '
    'calls are only used as preludes (the exact unit 10^-d is not computed by the model)',
]
TRUSTED = ['modelled, not verified: CPython float<->decimal conversion (repr, float(Decimal)), Decimal.quantize, '
           'Fraction arithmetic, math.floor/ceil']
REQUIRED_BUCKETS = ['via-formula', 'extreme', 'sequence', 'boundary', 'round:tie', 'round:neg-digits-tie', 'round:other', 'roundup', 'rounddown', 'trunc', 'int', 'mod',
                    'ceiling', 'floor', 'ceiling_math', 'floor_math', 'ceiling_precise', 'floor_precise', 'even',
                    'odd', 'malformed', 'binary-float']
EXHAUSTIVE = False
EXPLANATION = ('Model = exact rational arithmetic on the decimal each float argument shows (shortest repr). An implementation '
               'result agrees when it is the float nearest to the exact decimal result, so binary artefacts of float '
               'scaling/division are disagreements inside the governed region (= violations). The oracles restate the '
               'property on implementation outputs alone: multiples of the unit/significance, half-unit distance and tie '
               'direction for ROUND, |ROUNDDOWN| <= |x| <= |ROUNDUP| and TRUNC = ROUNDDOWN on the same (x, d), fixing '
               'exact multiples, INT = floor, MOD sign and identity, adjacent bracketing multiple per CEILING/FLOOR '
               'variant and mode, EVEN/ODD parity, distance < 2 and sign. A sample of every stream also goes through '
               'a formula =FN(A1,B1,..) evaluated by ExcelFormula/build_eval_context (bucket via-formula).')

ROUND4 = ('round', 'roundup', 'rounddown', 'trunc')
SIG6 = ('ceiling', 'floor', 'ceiling_math', 'floor_math', 'ceiling_precise', 'floor_precise')
ALL_FNS = ROUND4 + ('int', 'mod') + SIG6 + ('even', 'odd')
ARITY = {'round': (1, 2), 'roundup': (2, 2), 'rounddown': (2, 2), 'trunc': (1, 2), 'int': (1, 1), 'mod': (2, 2),
         'ceiling': (2, 2), 'floor': (2, 2), 'ceiling_math': (1, 3), 'floor_math': (1, 3),
         'ceiling_precise': (1, 2), 'floor_precise': (1, 2), 'even': (1, 1), 'odd': (1, 1)}


# ---------------------------------------------------------------------------------------------------------------
# tokens

def tok(fr):
    fr = Fraction(fr)
    return f'n:{fr.numerator}/{fr.denominator}'


def dec_tok(k, j=0):
    return tok(Fraction(k, 10 ** j))


def _is_num(t):
    return t.startswith('n:')


@functools.lru_cache(maxsize=1 << 20)
def _fr(t):
    return core.dec(t)


def _py(t):
    """token -> the Python value pycel receives"""
    v = core.dec(t)
    if isinstance(v, Fraction):
        return int(v) if v.denominator == 1 else v.numerator / v.denominator
    return v


@functools.lru_cache(maxsize=1 << 20)
def _faithful(fr):
    """the float nearest to the decimal `fr` shows exactly that decimal as its shortest repr"""
    if fr.denominator == 1:
        return True          # handed over as a Python int, which Decimal(repr(.)) / Fraction(repr(.)) read exactly
    f = fr.numerator / fr.denominator
    return Fraction(Decimal(repr(f))) == fr


def float_decimal(f):
    """the decimal a float stands for: its shortest repr"""
    return Fraction(Decimal(repr(f)))


def case(fn, *args):
    return {'fn': fn, 'args': list(args)}


# ---------------------------------------------------------------------------------------------------------------
# generator

SIG_POOL = [Fraction(s) for s in ('1', '2', '3', '5', '7', '10', '100', '0.1', '0.2', '0.25', '0.5', '0.3', '0.7',
                                  '0.01', '0.05', '1.5', '2.5', '0.001', '12.5')]
MODES = [None, 'n:0/1', 'n:1/1', 'n:-1/1', 'b:1', 'b:0', 'n:1/2']


EXTREME_X = [Fraction(v) for v in ('1.5', '2.5', '1.23456', '0.5', '123456789.5', '123456789012345', '1234567890.12345',
                                    '0.000123', '5e-05', '1.23e-05', '1e22', '1e25', '1e300', '1.7e308', '1e-300',
                                    '1.2345e-300', '25', '151')]
EXTREME_D = [0, 2, 5, 10, 15, 17, 20, 27, 28, 29, 40, 64, 65, 70, 100, 308, 324, 325, 400,
             -1, -2, -15, -22, -27, -28, -29, -64, -100, -308, -400]
EXTREME_S = [Fraction(v) for v in ('1', '0.001', '1e-05', '7', '1e22', '1e300', '1e-300', '3e-10')]


def _c(fn, *vals, **kw):
    def t(v):
        if isinstance(v, str) and (v == 'z' or v[:2] in ('n:', 's:', 'b:', 'e:')):
            return v
        return tok(Fraction(v))
    c = case(fn, *[t(v) for v in vals])
    c.update(kw)
    return c


def _unusual_calls():
    """calls that fail, return an error value or take a rare branch; `prelude_only` ones are never sent to the model
    (digit counts whose unit 10^-d is astronomically large / small)"""
    T = core.enc_text
    u = [_c('trunc', '1.5', 100), _c('rounddown', '123456789.5', 70), _c('roundup', '1.5', 400),
         _c('roundup', '123456789012345', 15), _c('round', '1.5', 28), _c('round', '1e25', 5),
         _c('rounddown', '1e300', 2), _c('roundup', '2.5', -400), _c('trunc', '2.5', -400), _c('round', '1.5', -400),
         _c('trunc', '1.5', 10 ** 10, prelude_only=True), _c('roundup', '1.5', -10 ** 10, prelude_only=True),
         _c('rounddown', '1.5', 10 ** 7, prelude_only=True), _c('round', '1.5', -10 ** 7, prelude_only=True),
         _c('roundup', '1.5', 10 ** 19, prelude_only=True), _c('trunc', '1.5', -10 ** 19, prelude_only=True),
         _c('round', 'e:na', 1), _c('roundup', '2.5', 'e:div0'), _c('trunc', 'e:num'), _c('rounddown', T('abc'), 0),
         _c('round', '2.5', T('x')), _c('roundup', 'z', 'z'), _c('round', 'b:1', 'b:1'), _c('trunc', T('TRUE'), 0),
         _c('mod', 1, 0), _c('mod', 'e:ref', 3), _c('mod', '0.7', T('abc')), _c('floor', 1, 0), _c('ceiling', 1, 0),
         _c('floor', 1, -1), _c('ceiling', '2.5', -2), _c('ceiling_math', '2.5', 0), _c('floor_math', '-2.5', 2, 'b:1'),
         _c('floor_precise', '2.5', 0), _c('ceiling_precise', 'e:value'), _c('int', T('abc')), _c('even', 'e:null'),
         _c('odd', 'z'), _c('even', 'b:1'), _c('ceiling_math', 'b:1', 'b:1', 'b:1'), _c('round', 1, 1),
         _c('roundup', '-0.5', 0), _c('mod', '1e300', '0.001'), _c('floor', '1e300', '1e-05'),
         # whole numbers with more digits than any fixed decimal context, rounded left of the point
         _c('trunc', '1e100', -2), _c('roundup', math.factorial(60), -1), _c('rounddown', '1e70', -3),
         _c('round', '1e300', -5), _c('roundup', '-1e300', -2)]
    return u


def _ordinary_calls():
    o = [_c('round', '2.5', 0), _c('round', '-2.5', 0), _c('round', 25, -1), _c('round', -25, -1), _c('round', 151, -2),
         _c('round', '2.1', 0), _c('round', '2.7', 0), _c('round', '2.675', 2), _c('round', '0.5'), _c('round', 1, 0),
         _c('roundup', '2.5', 0), _c('roundup', '-2.5', 0), _c('roundup', '2.1', 0), _c('roundup', 21, -1),
         _c('rounddown', '2.5', 0), _c('rounddown', '-2.5', 0), _c('rounddown', '2.7', 0), _c('rounddown', 29, -1),
         _c('trunc', '2.5'), _c('trunc', '-2.7', 0), _c('trunc', '0.29', 2),
         _c('ceiling', '2.5', 1), _c('ceiling', '-2.5', 1), _c('ceiling', '-2.5', -1), _c('ceiling', '0.7', '0.1'),
         _c('floor', '2.5', 1), _c('floor', '-2.5', 1), _c('floor', '-2.5', -1), _c('floor', '0.7', '0.1'),
         _c('ceiling_math', '2.5'), _c('ceiling_math', '-2.5', 1, 1), _c('ceiling_math', '-2.5', 2),
         _c('floor_math', '2.5'), _c('floor_math', '-2.5', 1, 1), _c('floor_math', '-2.5', 2),
         _c('ceiling_precise', '-2.5', -2), _c('floor_precise', '-2.5', -2), _c('ceiling_precise', '2.5'),
         _c('mod', 7, 3), _c('mod', -7, 3), _c('mod', 7, -3), _c('mod', -7, -3), _c('mod', '0.7', '0.1'),
         _c('mod', 1, -3), _c('int', '-2.5'), _c('int', '2.5'), _c('even', '2.5'), _c('even', '-2.5'), _c('even', 1),
         _c('odd', '2.5'), _c('odd', '-2.5'), _c('odd', 0), _c('odd', 2)]
    return o


def _boundary_floats():
    """doubles at which binary arithmetic and the decimal reading part ways"""
    out = []
    for h in (0.5, 1.5, 2.5, 3.5, 0.05, 0.15, 0.25, 5.0, 15.0, 25.0, 50.0, 0.005, 1.005, 2.675):
        out += [h, math.nextafter(h, math.inf), math.nextafter(h, -math.inf)]
    for k in range(-6, 7):
        for h in (0.5, 1.5, 2.5):
            v = float(f'{h}e{k}')
            out += [v, math.nextafter(v, math.inf), math.nextafter(v, -math.inf)]
    for base in (2 ** 51, 2 ** 52, 2 ** 53, 2 ** 54):
        for k in range(-3, 4):
            out.append(float(base + k))
            out.append(float(base) + k * 0.5 if base <= 2 ** 52 else float(base + 2 * k))
            if base == 2 ** 51:
                out.append(float(base) + k * 0.25)
    for k in range(1, 8):
        out.append(float(2 ** 52) - k * 0.5)
        out.append(float(2 ** 53) - k)
    out += [sys.float_info.min, sys.float_info.max, 5e-324, math.nextafter(sys.float_info.max, 0),
            math.nextafter(1.0, 0), math.nextafter(1.0, 2), math.nextafter(2.0, 0), 0.1 + 0.2, 1.1 * 3,
            1e15 + 0.5, 1e15 - 0.5, 1e16, 1e16 + 2, 9007199254740993.0, 4503599627370497.0, 4503599627370495.5]
    seen, res = set(), []
    for v in out:
        for w in (v, -v):
            if w not in seen and w == w and abs(w) != math.inf:
                seen.add(w)
                res.append(w)
    return res


def _round_points(thorough, rng):
    """(x, d) pairs: ties, near-ties, exact multiples for every digit count, then a small box, then random"""
    pts = []
    for d in range(-6, 7):
        u = Fraction(10) ** (-d)
        ms = ([0, 1, 2, 3, 4, 7, 12, 25, 99, 250] if thorough else [0, 1, 2, 7, 12, 250]) + \
             [rng.randint(0, 10 ** 4) for _ in range(30 if thorough else 3)]
        for m in ms:
            tie = (2 * m + 1) * u / 2
            for base in (tie, m * u, (m + 1) * u):
                for delta in (0, 1, -1, 3, -4):
                    for jj in (6, 4, max(d + 2, 0)):
                        x = base + delta * Fraction(1, 10 ** jj)
                        if abs(x) * 10 ** 6 <= 10 ** 12 and (x * 10 ** 6).denominator == 1 and \
                                abs(x * 10 ** 6) <= 10 ** 13:
                            pts.append((x, d))
                            pts.append((-x, d))
    # small box, every k/10^j
    kmax = 1000 if thorough else 150
    for j in range(0, 4):
        for k in range(-kmax, kmax + 1):
            for d in range(-2, 4):
                pts.append((Fraction(k, 10 ** j), d))
    for _ in range(40000 if thorough else 4000):
        j = rng.randint(0, 6)
        pts.append((Fraction(rng.randint(-10 ** 6, 10 ** 6), 10 ** j), rng.randint(-6, 6)))
    return pts


def _binary_floats(thorough, rng):
    import struct
    out = []
    for _ in range(8000 if thorough else 600):
        kind = rng.random()
        if kind < 0.4:
            f = rng.uniform(-1000, 1000)
        elif kind < 0.7:
            f = rng.uniform(-1, 1) * 10 ** rng.randint(-4, 6)
        else:
            # random mantissa, exponent chosen so that 1e-5 <= |f| < 1e7
            e = rng.randint(1023 - 16, 1023 + 23)
            bits = (rng.getrandbits(1) << 63) | (e << 52) | rng.getrandbits(52)
            f = struct.unpack('>d', struct.pack('>Q', bits))[0]
        if 'e' in repr(f):
            continue
        out.append(f)
    # decimal-looking floats one ulp away from a short decimal
    for s in ('0.285', '2.675', '1.005', '0.29', '0.7', '2.5', '1.15', '8.325', '0.1', '0.3'):
        f = float(s)
        out.extend([math.nextafter(f, math.inf), math.nextafter(f, -math.inf)])
    return out


def _cases(tier, rng):
    thorough = tier == 'thorough'
    seen = set()

    def emit(fn, *args, src=None):
        key = (fn,) + args
        if key in seen:
            return None
        for a in args:
            if _is_num(a) and not _faithful(_fr(a)):
                return None
        seen.add(key)
        c = case(fn, *args)
        if src:
            c['src'] = src
        return c

    def out(c):
        return [c] if c is not None else []

    # --- ROUND / ROUNDUP / ROUNDDOWN / TRUNC
    for x, d in _round_points(thorough, rng):
        for fn in ROUND4:
            yield from out(emit(fn, tok(x), tok(d)))
    for k in range(-50, 51):
        for fn in ('round', 'trunc'):
            yield from out(emit(fn, dec_tok(k * 5, 1)))          # default digits
    # --- INT / EVEN / ODD
    kmax = 4000 if thorough else 300
    for j in range(0, 4):
        for k in range(-kmax, kmax + 1):
            for fn in ('int', 'even', 'odd'):
                yield from out(emit(fn, dec_tok(k, j)))
    for _ in range(20000 if thorough else 1500):
        t = dec_tok(rng.randint(-10 ** 6, 10 ** 6), rng.randint(0, 6))
        for fn in ('int', 'even', 'odd'):
            yield from out(emit(fn, t))
    # --- MOD and the six significance functions
    sigs = [s for p in SIG_POOL for s in (p, -p)]
    nums = set()
    for j in range(0, 3):
        for k in range(-(300 if thorough else 60), (300 if thorough else 60) + 1):
            nums.add(Fraction(k, 10 ** j))
    nums = sorted(nums)
    for s in sigs:
        local = set(nums if thorough else nums[::6])
        for m in list(range(-12, 13) if thorough else range(-6, 7)) + \
                [rng.randint(-5000, 5000) for _ in range(40 if thorough else 6)]:
            for delta in (0, 1, -1):
                for jj in (6, 3, 1):
                    local.add(m * s + delta * Fraction(1, 10 ** jj))
        for _ in range(400 if thorough else 20):
            local.add(Fraction(rng.randint(-10 ** 6, 10 ** 6), 10 ** rng.randint(0, 6)))
        for n in sorted(local):
            yield from out(emit('mod', tok(n), tok(s)))
            for fn in SIG6:
                yield from out(emit(fn, tok(n), tok(s)))
            if n.denominator <= 10:
                for fn in ('ceiling_math', 'floor_math'):
                    for mode in (MODES[1:] if thorough else ('n:0/1', 'n:1/1', 'b:1')):
                        yield from out(emit(fn, tok(n), tok(s), mode))
    for n in nums:
        for fn in ('ceiling_math', 'floor_math', 'ceiling_precise', 'floor_precise'):
            yield from out(emit(fn, tok(n)))                       # default significance
        for fn in SIG6 + ('mod',):
            yield from out(emit(fn, tok(n), 'n:0/1'))               # zero significance / divisor
    # integer MOD, small scope exhaustive
    r = 40 if thorough else 16
    for n in range(-r, r + 1):
        for d in range(-r, r + 1):
            yield from out(emit('mod', tok(n), tok(d)))
    # --- binary floats, sent as their repr decimal
    for f in _binary_floats(thorough, rng):
        x = tok(float_decimal(f))
        d = tok(rng.randint(-3, 6))
        for fn in ROUND4:
            yield from out(emit(fn, x, d, src='float'))
        for fn in ('int', 'even', 'odd'):
            yield from out(emit(fn, x, src='float'))
        s = tok(rng.choice(sigs))
        for fn in SIG6 + ('mod',):
            yield from out(emit(fn, x, s, src='float'))
    # --- float boundaries (deterministic): doubles next to x.5, whole numbers around 2^52 / 2^53 (as int and as float),
    #     smallest / largest doubles, -0.0; digits 0 and ±1 through every function
    bseen = set()

    def bemit(fn, *args, **flags):
        key = (fn, args, tuple(sorted(flags)))
        if key in bseen or any(_is_num(a) and not _faithful(_fr(a)) for a in args):
            return []
        bseen.add(key)
        return [dict(case(fn, *args), src='boundary', **flags)]

    for f in _boundary_floats():
        x = tok(float_decimal(f))
        flag_sets = [{}]
        if f == int(f) and abs(f) < 1e300 and Fraction(int(f)) == float_decimal(f):
            # hand the whole number over as a float as well as an int (only where the float's shortest repr shows every
            # digit of its value: past 2^53 pycel's int() coercion reads the binary value, not the shortest repr)
            flag_sets.append({'float': True})
        for flags in flag_sets:
            for fn in ROUND4:
                for d in ('n:0/1', 'n:1/1', 'n:-1/1'):
                    yield from bemit(fn, x, d, **flags)
            for fn in ('round', 'trunc', 'int', 'even', 'odd', 'ceiling_math', 'floor_math', 'ceiling_precise',
                       'floor_precise'):
                yield from bemit(fn, x, **flags)
            for sg in ('n:1/1', 'n:-1/1', 'n:2/1', 'n:1/2', 'n:1/10'):
                for fn in SIG6 + ('mod',):
                    yield from bemit(fn, x, sg, **flags)
    for fn in ROUND4:
        for d in ('n:0/1', 'n:1/1', 'n:-1/1'):
            yield from bemit(fn, 'n:0/1', d, negzero=True)
    for fn in ('round', 'trunc', 'int', 'even', 'odd', 'ceiling_math', 'floor_precise'):
        yield from bemit(fn, 'n:0/1', negzero=True)
    for fn in SIG6 + ('mod',):
        yield from bemit(fn, 'n:0/1', 'n:1/1', negzero=True)
        yield from bemit(fn, 'n:0/1', 'n:-1/2', negzero=True)
    # --- totality: digit counts far beyond the float's precision, huge and tiny numbers (a number or #NUM!, never an
    #     exception)
    for x in EXTREME_X:
        for d in EXTREME_D:
            for fn in ROUND4:
                yield from out(emit(fn, tok(x), tok(d), src='extreme'))
                if x > 0:
                    yield from out(emit(fn, tok(-x), tok(d), src='extreme'))
        for fn in ('int', 'even', 'odd'):
            yield from out(emit(fn, tok(x), src='extreme'))
            yield from out(emit(fn, tok(-x), src='extreme'))
        for sg in EXTREME_S:
            for fn in SIG6 + ('mod',):
                yield from out(emit(fn, tok(x), tok(sg), src='extreme'))
                yield from out(emit(fn, tok(-x), tok(-sg), src='extreme'))
    # --- sequences in one process: an unusual call (fails, error value, odd branch) right before an ordinary one of
    #     every function, and the other way round
    unusual, ordinary = _unusual_calls(), _ordinary_calls()
    for u in unusual:
        for o in ordinary:
            yield dict(o, prelude=[u], src='seq')
            if not u.get('prelude_only'):
                yield dict(u, prelude=[o], src='seq')
    for i, u in enumerate(unusual):
        v = unusual[(i * 7 + 3) % len(unusual)]
        for o in ordinary[i % 3::3]:
            yield dict(o, prelude=[u, v], src='seq')
            yield dict(o, prelude=[u, ordinary[(i + 5) % len(ordinary)], v], src='seq')
    # --- malformed stream: operand kinds in every position, fractional digits
    odd_vals = ['z', 'b:1', 'b:0', 's:', core.enc_text('abc'), core.enc_text('TRUE'), core.enc_text('false'),
                core.enc_text('x1'), core.enc_text('#EMPTY!')] + ['e:' + t for t in core.TAG_ERRS]
    good = {0: ['n:25/1', 'n:-5/2', 'n:123/100'], 1: ['n:1/1', 'n:-1/1', 'n:2/1'], 2: ['n:1/1', 'n:0/1']}
    for fn in ALL_FNS:
        lo, hi = ARITY[fn]
        for n_args in range(lo, hi + 1):
            for pos in range(n_args):
                for v in odd_vals:
                    for pick in range(3):
                        args = [good[i][pick % len(good[i])] for i in range(n_args)]
                        args[pos] = v
                        yield from out(emit(fn, *args))
            for v in odd_vals[:4] + ['e:na']:
                for w in odd_vals[:5] + ['e:div0']:
                    if n_args >= 2:
                        args = [v, w] + ['n:1/1'] * (n_args - 2)
                        yield from out(emit(fn, *args))
    for fn in ROUND4:
        for x in ('n:12345/100', 'n:-12345/100', 'n:155/1', 'n:-25/1'):
            for d in ('n:3/2', 'n:-3/2', 'n:9/10', 'n:-9/10', 'n:1/2', 'n:-1/2', 'n:19/10', 'n:-11/10'):
                yield from out(emit(fn, x, d))


def cases(tier, rng):
    """every case through the wrapped library function; a deterministic sample (and the whole malformed stream of
    the quick tier) once more through a formula `=FN(A1,B1,..)` evaluated by ExcelFormula + build_eval_context"""
    step = 40 if tier == 'thorough' else 90
    i = 0
    for c in _cases(tier, rng):
        yield c
        i += 1
        if i % step == 0 or (not _all_numeric(c) and i % 11 == 0):
            yield dict(c, via='formula')


# ---------------------------------------------------------------------------------------------------------------
# implementation / model

def _pyname(fn):
    """Excel name -> Python name, through the live FunctionNode.func_map (ROUND -> round_, INT -> int_)"""
    from pycel.excelformula import FunctionNode
    return FunctionNode.func_map.get(fn, fn)


XL_NAME = {'ceiling_math': 'CEILING.MATH', 'floor_math': 'FLOOR.MATH', 'ceiling_precise': 'CEILING.PRECISE',
           'floor_precise': 'FLOOR.PRECISE'}


_SCRUB = [case('rounddown', 'n:31/10', 'n:0/1'), case('roundup', 'n:31/10', 'n:0/1'), case('trunc', 'n:31/10'),
          case('round', 'n:31/10', 'n:-1/1'), case('round', 'n:31/10', 'n:0/1'), case('mod', 'n:7/1', 'n:3/1'),
          case('floor', 'n:31/10', 'n:1/1'), case('ceiling_math', 'n:31/10')]


def _call(c):
    args = [_py(a) for a in c['args']]
    if c.get('float'):
        args[0] = float(args[0])
    if c.get('negzero'):
        args[0] = -0.0
    if c.get('via') == 'formula':
        refs = ['A1', 'B1', 'C1'][:len(args)]
        formula = f"={XL_NAME.get(c['fn'], c['fn'].upper())}({','.join(refs)})"
        return core.enc(pyc.eval_formula(formula, dict(zip(refs, args))))
    return core.enc(pyc.lib_call(_pyname(c['fn']), *args))


def impl(c):
    """the calls of `prelude` run first in the same process (their results and exceptions are discarded), then the
    case's own call: state leaking from one call into the next shows as a wrong result of the ordinary call"""
    if c.get('prelude'):
        # ordinary successful calls first, so that what an EARLIER case of this process left behind is not blamed on
        # this case's prelude (a replay in a fresh process runs the same three steps and is self-contained)
        for sc in _SCRUB:
            try:
                _call(sc)
            except Exception:   # noqa
                pass
    for pc in c.get('prelude', ()):
        try:
            _call(dict(pc, via=c.get('via')))
        except Exception:   # noqa
            pass
    return _call(c)


def model_lines(c):
    return ['c19 ' + c['fn'] + ' ' + ' '.join(c['args'])]


def same(impl_out, model_out):
    if impl_out == model_out:
        return True
    if _is_num(impl_out) and model_out and _is_num(model_out):
        m = _fr(model_out)
        try:
            return Fraction(m.numerator / m.denominator) == _fr(impl_out)
        except OverflowError:
            return False
    if impl_out == 'e:num' and model_out and _is_num(model_out):
        return _overflows(_fr(model_out))      # the exact result is beyond every float: Excel's #NUM!
    return False


def _overflows(fr):
    try:
        return math.isinf(fr.numerator / fr.denominator)
    except OverflowError:
        return True


def _all_numeric(c):
    return all(_is_num(a) for a in c['args'])


def governed(c):
    """the property fixes the result whenever every operand is a number, the digits are integral and the call is not
    one of the error corners (zero / wrong-signed significance, zero divisor), which follow the code"""
    if not _all_numeric(c):
        return False
    a = [_fr(t) for t in c['args']]
    fn = c['fn']
    if fn in ROUND4:
        return len(a) == 1 or a[1].denominator == 1
    if fn in ('mod',) + SIG6 and len(a) >= 2:
        if a[1] == 0:
            return False
        if fn in ('ceiling', 'floor') and a[1] < 0 < a[0]:
            return False
    return True


# ---------------------------------------------------------------------------------------------------------------
# oracles: the property restated over implementation outputs only

def _impl_decimal(out):
    """implementation output token -> the decimal its float shows (None if not a number)"""
    if not _is_num(out):
        return None
    fr = _fr(out)
    if fr.denominator == 1:
        if abs(fr) < 2 ** 53:
            return fr
        try:
            f = float(fr.numerator)
        except OverflowError:
            return fr
        # an integral float past 2^53 arrives as its exact integer value; it stands for its shortest repr
        return float_decimal(f) if Fraction(f) == fr and abs(f) != math.inf else fr
    return float_decimal(fr.numerator / fr.denominator)


def _float_shows(fr):
    """the exact value is the decimal some float shows as its shortest repr"""
    if _overflows(fr):
        return False
    if fr.denominator == 1 and abs(fr) < 2 ** 53:
        return True
    return float_decimal(fr.numerator / fr.denominator) == fr


def _nearest_float_is(expected, out):
    """the implementation's number is the float nearest to the exact value `expected` (or #NUM! past every float)"""
    if _overflows(expected):
        return out == 'e:num'
    return _is_num(out) and Fraction(expected.numerator / expected.denominator) == _fr(out)


def _expected(fn, a):
    """the property's value for the governed numeric call, computed exactly (used only to excuse results whose exact
    decimal needs more digits than a float shows; every clause is still checked separately below)"""
    x = a[0]
    if fn in ROUND4:
        u = Fraction(10) ** (-(int(a[1]) if len(a) > 1 else 0))
        q = abs(x) / u
        n = math.floor(q + Fraction(1, 2)) if fn == 'round' else math.ceil(q) if fn == 'roundup' else math.floor(q)
        return _sgn(x) * n * u
    if fn in SIG6:
        sg = abs(a[1]) if len(a) > 1 else Fraction(1)
        mode = a[2] if len(a) > 2 else Fraction(0)
        return sg * (math.ceil(x / sg) if _goes_up(fn, x, a[1] if len(a) > 1 else Fraction(1), mode)
                     else math.floor(x / sg))
    return None


def _goes_up(fn, x, s, mode):
    if fn == 'ceiling_precise':
        return True
    if fn == 'floor_precise':
        return False
    if fn == 'ceiling_math':
        return not (mode != 0 and x < 0)
    if fn == 'floor_math':
        return mode != 0 and x < 0
    if fn == 'ceiling':
        return s > 0
    return s < 0


def _is_multiple(r, u):
    return (r / u).denominator == 1


def _flt(q):
    try:
        return float(q)
    except OverflowError:
        return math.copysign(math.inf, q)


def _sgn(q):
    return (q > 0) - (q < 0)


def oracles(results):
    for r in results:
        c = r.case
        if r.impl.startswith('!'):
            yield c, f'{c["fn"]} raised / returned a non-Excel value: {r.impl}'
            continue
        if not governed(c):
            continue
        fn = c['fn']
        a = [_fr(t) for t in c['args']]
        exp = _expected(fn, a)
        if exp is not None and not _float_shows(exp) and _nearest_float_is(exp, r.impl):
            continue                     # the exact result has more digits than a float shows; it is the nearest float
        res = _impl_decimal(r.impl)
        if res is None:
            if r.impl == 'e:num' and fn in ROUND4 and len(a) > 1 and a[1] < -300 and a[0] != 0:
                continue                 # the multiple 10^-d is beyond every float: #NUM!
            yield c, f'{fn}{tuple(map(_flt, a))} on numbers gave {core.show(r.impl)}'
            continue
        x = a[0]
        if fn in ROUND4:
            d = int(a[1]) if len(a) > 1 else 0
            u = Fraction(10) ** (-d)
            if not _is_multiple(res, u):
                yield c, f'{fn}({float(x)},{d}) = {float(res)} is not a multiple of 10^{-d}'
            elif _is_multiple(x, u) and res != x:
                yield c, f'{fn}({float(x)},{d}) = {float(res)} moved an exact multiple'
            elif res != 0 and _sgn(res) != _sgn(x):
                yield c, f'{fn}({float(x)},{d}) = {float(res)} changed sign'
            elif fn == 'round':
                if abs(res - x) * 2 > u:
                    yield c, f'ROUND({float(x)},{d}) = {float(res)} is more than half a unit away'
                elif abs(res - x) * 2 == u and abs(res) < abs(x):
                    yield c, f'ROUND({float(x)},{d}) = {float(res)}: tie rounded toward zero'
            elif fn == 'roundup':
                if not (abs(x) <= abs(res) < abs(x) + u):
                    yield c, f'ROUNDUP({float(x)},{d}) = {float(res)} is not the next multiple away from zero'
            else:
                if not (abs(x) - u < abs(res) <= abs(x)):
                    yield c, f'{fn.upper()}({float(x)},{d}) = {float(res)} is not the next multiple toward zero'
        elif fn == 'int':
            if res != math.floor(x):
                yield c, f'INT({float(x)}) = {float(res)} is not the floor'
        elif fn == 'mod':
            dv = a[1]
            rb = _fr(r.impl)                     # the float itself: the remainder may need more than 17 digits
            if rb != 0 and _sgn(rb) != _sgn(dv):
                yield c, f'MOD({float(x)},{float(dv)}) = {float(rb)} has not the sign of the divisor'
            elif not abs(rb) <= abs(Fraction(_py(c['args'][1]))):
                yield c, f'MOD({float(x)},{float(dv)}) = {float(rb)} is not smaller than the divisor'
            elif abs(x - dv * math.floor(x / dv) - rb) * 2 > Fraction(math.ulp(float(rb))):
                yield c, f'MOD({float(x)},{float(dv)}) = {float(rb)}: n = d*INT(n/d) + MOD(n,d) fails'
        elif fn in SIG6:
            s = a[1] if len(a) > 1 else Fraction(1)
            mode = a[2] if len(a) > 2 else Fraction(0)
            if not _is_multiple(res, s):
                yield c, f'{fn}{tuple(map(float, a))} = {float(res)} is not a multiple of the significance'
                continue
            if _is_multiple(x, s) and res != x:
                yield c, f'{fn}{tuple(map(float, a))} = {float(res)} moved an exact multiple'
                continue
            up = _goes_up(fn, x, s, mode)
            ok = (x <= res < x + abs(s)) if up else (x - abs(s) < res <= x)
            if not ok:
                yield c, f'{fn}{tuple(map(float, a))} = {float(res)} is not the adjacent multiple ' \
                         f'{"above" if up else "below"}'
        elif fn in ('even', 'odd'):
            par = 0 if fn == 'even' else 1
            if abs(x) >= 2 ** 52:
                if abs(_fr(r.impl) - x) > abs(x) / 2 ** 52:
                    yield c, f'{fn.upper()}({float(x)}) = {float(res)} is not the neighbouring integer'
            elif res.denominator != 1 or res % 2 != par:
                yield c, f'{fn.upper()}({float(x)}) = {float(res)} has the wrong parity'
            elif not (abs(x) <= abs(res) < abs(x) + 2) and not (fn == 'odd' and abs(x) < 1 and abs(res) == 1):
                yield c, f'{fn.upper()}({float(x)}) = {float(res)} is not the next one away from zero'
            elif res != 0 and x != 0 and _sgn(res) != _sgn(x):
                yield c, f'{fn.upper()}({float(x)}) = {float(res)} changed sign'
    # cross-function relations on the same (x, d)
    by_key = {}
    for r in results:
        c = r.case
        if c['fn'] in ROUND4 and governed(c) and _is_num(r.impl):
            d = int(_fr(c['args'][1])) if len(c['args']) > 1 else 0
            by_key.setdefault((c['args'][0], d), {})[c['fn']] = (r, _fr(r.impl))
    for (xt, d), g in by_key.items():
        xf = _py(xt)
        if 'rounddown' in g and 'roundup' in g:
            dn, up = g['rounddown'][1], g['roundup'][1]
            if not (abs(dn) <= abs(Fraction(float(xf))) <= abs(up)):
                yield g['rounddown'][0].case, f'|ROUNDDOWN| <= |x| <= |ROUNDUP| fails at ({xf},{d}): ' \
                                              f'{float(dn)}, {float(up)}'
        if 'rounddown' in g and 'trunc' in g and g['rounddown'][1] != g['trunc'][1]:
            yield g['trunc'][0].case, f'TRUNC({xf},{d}) = {float(g["trunc"][1])} differs from ROUNDDOWN = ' \
                                      f'{float(g["rounddown"][1])}'
        if 'round' in g and 'rounddown' in g and 'roundup' in g:
            rd = g['round'][1]
            if rd not in (g['rounddown'][1], g['roundup'][1]):
                yield g['round'][0].case, f'ROUND({xf},{d}) = {float(rd)} is neither ROUNDDOWN nor ROUNDUP'


# ---------------------------------------------------------------------------------------------------------------

def finding_key(c, impl_out, model_out):
    """narrow classes of listed findings (both at the very edge of the double format)"""
    if not _all_numeric(c) or len(c['args']) != 1 or not impl_out or not _is_num(impl_out):
        return None
    x = _fr(c['args'][0])
    if c['fn'] == 'odd' and x.denominator == 1 and x % 2 == 0 and abs(x) >= 2 ** 53 and \
            0 < abs(x) - abs(_fr(impl_out)) <= 4:
        return 'odd.even-whole-beyond-2^53'
    if c['fn'] == 'even' and 0 < abs(x) < Fraction(1, 10 ** 323) and impl_out == 'n:0/1':
        return 'even.smallest-denormal'
    return None


def _unit_of(c):
    a = [_fr(t) for t in c['args']]
    fn = c['fn']
    if fn in ROUND4:
        return Fraction(10) ** (-(int(a[1]) if len(a) > 1 else 0))
    if fn in SIG6 or fn == 'mod':
        return a[1] if len(a) > 1 else Fraction(1)
    if fn == 'int':
        return Fraction(1)
    return Fraction(2)


def nontrivial(c):
    if not _all_numeric(c):
        return False
    u = _unit_of(c)
    if u == 0:
        return False
    return c['fn'] == 'odd' or not _is_multiple(_fr(c['args'][0]), u)


def bucket(c):
    fn = c['fn']
    if c.get('via') == 'formula':
        return 'via-formula'
    if c.get('src') == 'seq':
        return 'sequence'
    if c.get('src') == 'extreme':
        return 'extreme'
    if c.get('src') == 'boundary':
        return 'boundary'
    if not _all_numeric(c):
        return 'malformed'
    a = [_fr(t) for t in c['args']]
    if c.get('src') == 'float':
        return 'binary-float'
    if fn == 'round':
        d = int(a[1]) if len(a) > 1 else 0
        u = Fraction(10) ** (-d)
        if (a[0] / u * 2).denominator == 1 and (a[0] / u).denominator == 2:
            return 'round:neg-digits-tie' if d < 0 else 'round:tie'
        return 'round:other'
    return fn

"""C08 — trim_graph preserves the outputs as a function of the inputs (excelcompiler.py trim_graph).  DESIGN.md §7 C08.

A case is one workbook (nodes in topological order, as in C01) + a history before the trim (the starting configuration:
never / partly / fully evaluated) + input and output node lists + cumulative rounds of writes to the inputs:

    {'cfg': 'never' | 'partly' | 'fully', 'fmt': 'yml' | 'json' | 'pkl',
     'nodes': [['I', addr, valtok] | ['F', addr, kind, args] | ['R', range_addr, rows, cols, [member nodes]]],
     'I': [node...], 'O': [node...], 'pre': [['S', node, valtok] | ['E', node]],
     'rounds': [[[node, valtok]...] | ['R', range_node, [valtok...]]],     compared with the model
     'extra':  [[node, valtok]...]}      writes over inputs that keep their formula (oracle only, see ASSUMPTIONS)

`impl` drives the REAL ExcelCompiler three times with the same pre-history: T is trimmed, L is T saved with to_file and
loaded with from_file (TemporaryDirectory), U is never trimmed.  Its output string (compared with the Lean driver) is
the trim status, `set(cell_map)` of T, the formula cells that lost their formula, and per round the write
acknowledgements and the value of every output on T and on L.  `oracles` restates the property on the implementation
alone: after every round (and the extra round) every output of T and of L equals the output of U; every frozen cell
holds the value U computes for it at trim time; no output raises.
"""
import json
import os
import tempfile

from harness import core, pyc

ID = 'C08'
LEAN_MODULE = 'Pycel.Props.C08'
NS = 'Pycel.Trim.'
THEOREMS = [NS + t for t in (
    'C08_ready_init', 'C08_ready_run', 'trim_ok',
    'C08_independent', 'C08_depOn_iff', 'C08_frozen_independent',
    'C08_frozen_value', 'C08_frozen_constant',
    'C08_preserves', 'C08_preserves_live', 'C08_output_live', 'C08_preserves_of_evaluatedAtTrim',
    'C08_wf', 'C08_failed_trim_atomic', 'C08_retrim_ready', 'C08_retrim_preserves', 'C08_persist', 'C08_persist_commutes', 'C08_error_iff',
    'C08_trim_inv', 'C08_trimmed_engine', 'C08_preserves_inst', 'semOv_local', 'C08_preserves_drv',
    'C08_asWritten_counterexample', 'C08_asWritten_not_evaluatedAtTrim')]
DESIGN_REF = 'DESIGN.md §7 C08'
RULE = ('random DAG workbooks (2-14 cells on one or two sheets, blank cells, range nodes incl. 2-D, ranges over formula '
        'cells that read other ranges, cross-sheet references; formulas =ref, a&"|"&b…, a+b, SUM, COUNT, INDEX) x input '
        'lists of 1-3 nodes (leaf cells, BURIED formula cells, range nodes incl. ranges no formula reads, inputs that '
        'feed no output, inputs that are also outputs, inputs that depend on other inputs) x output lists of 1-3 nodes '
        '(formula cells, ranges, value cells) x starting configuration never / partly / fully evaluated (history of '
        'evaluate and set_value before the trim) x 3-4 cumulative rounds of writes to the inputs (cell by cell, or a '
        'whole input range at once) x save format yml/json/pkl.  Half of the random workbooks are FLOAT-valued: '
        'non-dyadic inputs and written values (0.1+0.2, 1/3, sums of decimals, 16-17 significant digits), formulas '
        '+ - /c SUM COUNT INDEX, and 1-2 threshold cells =X>c, =X=c, =IF(X>c,"hi","lo") with c the current value of X, '
        'its 15-digit rounding or a neighbouring float, used as outputs (a last-bit change of a frozen or reloaded '
        'value flips them).  Deterministic core (seed independent): one fixed float-valued 8-node workbook (quick; '
        'three in thorough) x every input list of size 1 and (quick: every second) 2 x every single output (thorough: '
        'pairs too) x the three configurations.  A case is non-trivial when a written input is (a precedent of) an '
        'output that also has a formula precedent reading no other input — something the trim freezes.')
ASSUMPTIONS = [
    'non-iterative mode, in-memory workbook without stored results; the trim is applied once, to a model that was not '
    'loaded from a file',
    'formula language of the correspondence as in C01 (=ref, &, +, SUM, COUNT, INDEX; integers, text, logicals, blank)',
    'an input that keeps its formula in the trimmed model (it depends on another input, or it is also an output) is a '
    'formula cell in both models; writing over it is outside the engine model (C01): such writes are compared between '
    'the three real models by the oracle only, not with the Lean model',
    'after the trim only the kept cells and the outputs are observed; a deleted cell that pycel would re-create from '
    'the still attached workbook is not part of the property',
    'save/load: the text codec round-trips the generated scalars (C03 contract)',
]
TRUSTED = ['modelled, not verified: openpyxl, networkx, ruamel.yaml/json/pickle codecs, the concrete formula '
           'evaluator of pycel (compared only on the generated language)']
REQUIRED_BUCKETS = ['never:exh', 'partly:exh', 'fully:exh', 'never:flt', 'partly:flt', 'fully:flt', 'never:leaf', 'partly:leaf', 'fully:leaf',
                    'raw:column', 'raw:row', 'raw:cycles', 'never:retry', 'partly:retry', 'fully:retry',
                    'never:retrim', 'partly:retrim', 'fully:retrim', 'never:buried', 'partly:buried', 'fully:buried', 'never:range', 'partly:range', 'fully:range']
EXHAUSTIVE = False
EXPLANATION = ('theorems: every workbook/input list/output list/engine state/assignment; correspondence: real '
               'trim_graph + to_file/from_file vs compiled model (status, set(cell_map), lost formulas, every output '
               'per round, directly and reloaded), plus implementation-only oracle trimmed = reloaded = untrimmed')

_SIDE = {}


# ---------------------------------------------------------------------------------------------------------------
# workbook description -> Excel cells (same description as C01)

def _py(tok):
    v = core.dec(tok)
    from fractions import Fraction
    if isinstance(v, Fraction):
        return int(v) if v.denominator == 1 else float(v)
    return v


def _tok(v):
    return core.enc_text(v) if isinstance(v, str) else core.enc(v)


ONE_DEP = ('idx', 'divc', 'gt', 'eqc', 'ifgt')     # kinds whose args are [node, constants...]


def _lit(tok):
    """a numeric constant as written in a formula: shortest text that reads back as the same float"""
    return repr(_py(tok))


def _addr_of(nodes, j, sheet):
    a = nodes[j][1]
    s, _, coord = a.partition('!')
    if s == sheet and j % 2 == 1:
        return coord
    return a


def formula_of(nodes, i):
    n = nodes[i]
    sheet = n[1].partition('!')[0]
    kind, args = n[2], n[3]
    ref = lambda j: _addr_of(nodes, j, sheet)   # noqa
    if kind == 'ref':
        return '=' + ref(args[0])
    if kind == 'cat':
        return '=' + '&"|"&'.join(ref(j) for j in args) + '&"|"'
    if kind == 'add':
        return f'={ref(args[0])}+{ref(args[1])}'
    if kind == 'sub':
        return f'={ref(args[0])}-{ref(args[1])}'
    if kind == 'eq':
        return f'={ref(args[0])}={ref(args[1])}'
    if kind == 'divc':
        return f'={ref(args[0])}/{_lit(args[1])}'
    if kind == 'gt':
        return f'={ref(args[0])}>{_lit(args[1])}'
    if kind == 'eqc':
        return f'={ref(args[0])}={_lit(args[1])}'
    if kind == 'ifgt':
        return f'=IF({ref(args[0])}>{_lit(args[1])},"hi","lo")'
    if kind == 'sum':
        return '=SUM(' + ','.join(ref(j) for j in args) + ')'
    if kind == 'cnt':
        return '=COUNT(' + ','.join(ref(j) for j in args) + ')'
    if kind == 'idx':
        return f'=INDEX({ref(args[0])},{args[1]},{args[2]})'
    raise ValueError(kind)


def cells_of(nodes):
    cells = {}
    for i, n in enumerate(nodes):
        if n[0] == 'I':
            cells[n[1]] = _py(n[2])
        elif n[0] == 'F':
            cells[n[1]] = formula_of(nodes, i)
    return cells


def enc_result(nodes, i, v):
    n = nodes[i]
    if n[0] != 'R':
        return core.enc(v)
    rows, cols = n[2], n[3]
    if not isinstance(v, tuple):
        return '!not-a-tuple:' + core.enc(v)
    if rows > 1 and cols > 1:
        flat = [x for r in v for x in r]
    else:
        flat = list(v)
    if len(flat) != rows * cols:
        return f'!shape:{len(flat)}'
    return ' '.join([f'a:{rows}:{cols}'] + [core.enc(x) for x in flat])


def deps_of(nodes):
    deps = []
    for n in nodes:
        if n[0] == 'I':
            deps.append([])
        elif n[0] == 'F':
            deps.append(list(n[3][:1]) if n[2] in ONE_DEP else list(n[3]))
        else:
            deps.append(list(n[4]))
    return deps


def closure(nodes):
    """strict transitive precedents of every node"""
    clo = []
    for d in deps_of(nodes):
        c = set(d)
        for j in d:
            c |= clo[j]
        clo.append(c)
    return clo


def input_cells(nodes, I):
    out = []
    for i in I:
        out.append(i)
        if nodes[i][0] == 'R':
            out.extend(nodes[i][4])
    seen, res = set(), []
    for i in out:
        if i not in seen:
            seen.add(i)
            res.append(i)
    return res


def writable(nodes, I, O):
    """input cells the trimmed model holds as value cells whenever it keeps them: no other input cell among their
    precedents; a formula cell that is also an output keeps its formula"""
    ic = input_cells(nodes, I)
    clo = closure(nodes)
    s = set(ic)
    return [i for i in ic if nodes[i][0] != 'R' and not (clo[i] & s) and not (nodes[i][0] == 'F' and i in O)]


# ---------------------------------------------------------------------------------------------------------------
# implementation side

def _addr_key(addr):
    from pycel.excelutil import AddressRange
    return AddressRange(addr).address


def _write(comp, nodes, i, v):
    try:
        comp.set_value(nodes[i][1], v)
        return 'ok'
    except AssertionError:
        return 'rej'


def _outs(comp, nodes, O):
    res = []
    for o in O:
        try:
            res.append(enc_result(nodes, o, comp.evaluate(nodes[o][1])))
        except Exception as exc:   # noqa
            res.append(core.canon_exc(exc))
    return res


def _replay(comp, nodes, pre):
    for op in pre:
        if op[0] == 'S':
            _write(comp, nodes, op[1], _py(op[2]))
        else:
            comp.evaluate(nodes[op[1]][1])


def _round_writes(nodes, rnd):
    if rnd and rnd[0] == 'R':
        return [[m, t] for m, t in zip(nodes[rnd[1]][4], rnd[2])]
    return rnd


def raw_impl(case):
    """scripted scenarios outside the node language (whole-column references, iterative mode): 'raw-ok' when the trimmed,
    the trimmed+reloaded and the untrimmed real model agree exactly on the output after every write"""
    from pycel import ExcelCompiler
    a, b1, b2, w1, w2 = case['vals']
    kind = case['raw']
    if kind == 'column':        # C1 reads a whole column none of whose cells is an input
        cells = {'Sheet1!A1': a, 'Sheet1!B1': b1, 'Sheet1!B2': b2, 'Sheet1!C1': '=A1+SUM(B:B)'}
        kw, pre = {}, [('E', 'Sheet1!C1')] if case['evaluated'] else []
    elif kind == 'row':
        cells = {'Sheet1!A1': a, 'Sheet1!A2': b1, 'Sheet1!B2': b2, 'Sheet1!C1': '=A1+SUM(2:2)'}
        kw, pre = {}, [('E', 'Sheet1!C1')] if case['evaluated'] else []
    else:                       # iterative mode: B2 evaluated, then its precedent changes, then the trim freezes B2
        cells = {'Sheet1!A1': a, 'Sheet1!B1': b1, 'Sheet1!B2': '=B1*5', 'Sheet1!C1': '=A1+B2'}
        kw = {'cycles': {'iterations': 100, 'tolerance': 0.001}}
        pre = [('E', 'Sheet1!C1'), ('S', 'Sheet1!B1', b2)] if case['evaluated'] else [('S', 'Sheet1!B1', b2)]
    T, U = pyc.compiler_from(cells, **kw), pyc.compiler_from(cells, **kw)
    for c in (T, U):
        for op in pre:
            if op[0] == 'E':
                c.evaluate(op[1])
            else:
                c.evaluate(op[1])
                c.set_value(op[1], op[2])
    U.evaluate('Sheet1!C1')
    T.trim_graph(['Sheet1!A1'], ['Sheet1!C1'])
    with tempfile.TemporaryDirectory(prefix='c08-') as d:
        path = os.path.join(d, 'm.' + case['fmt'])
        T.to_file(path)
        L = ExcelCompiler.from_file(path)
    for k, w in enumerate([None, w1, w2]):
        if k:
            for c in (T, L, U):
                c.set_value('Sheet1!A1', w)
        t, l, u = (core.enc(c.evaluate('Sheet1!C1')) for c in (T, L, U))
        if not t == l == u:
            return f'step {k}: trimmed {core.show(t)}, reloaded {core.show(l)}, untrimmed {core.show(u)}'
    return 'raw-ok'


def _trim(comp, nodes, I, O):
    """-> 'ok' | 'err:input' (the ValueError of an input no output depends on); anything else propagates"""
    try:
        comp.trim_graph([nodes[i][1] for i in I], [nodes[o][1] for o in O])
        return 'ok'
    except ValueError as exc:
        if 'usually means no outputs are dependant on it' in str(exc):
            return 'err:input'
        raise


def impl(case):
    from pycel import ExcelCompiler
    if case.get('raw'):
        return raw_impl(case)
    nodes, I, O = case['nodes'], case['I'], case['O']
    key = json.dumps(case, sort_keys=True)
    cells = cells_of(nodes)
    # T: the model under test.  U: the reference — the same history without the trim under test and without the
    # REJECTED earlier trims (an accepted earlier trim is part of the reference: it is destructive by design).
    # F: a fresh model that only sees the final, corrected trim (when no earlier trim was accepted).
    T, U, F = pyc.compiler_from(cells), pyc.compiler_from(cells), pyc.compiler_from(cells)
    for c in (T, U, F):
        _replay(c, nodes, case['pre'])
    side = {'u': [], 't': [], 'l': [], 'f': [], 'frozen': []}
    _SIDE[key] = side
    out = []
    accepted = False
    for pr in case.get('priors', []):
        st = _trim(T, nodes, pr['I'], pr['O'])
        out.append('P:' + st)
        if st == 'ok':
            accepted = True
            if _trim(U, nodes, pr['I'], pr['O']) != 'ok':
                raise RuntimeError('reference model rejected a trim the model under test accepted')
        else:
            # a rejected call has put the outputs and their precedents into the cell map, as an evaluate would
            for c in (U, F):
                for o in pr['O']:
                    c.evaluate(nodes[o][1])
        for c in (T, U, F):
            _replay(c, nodes, pr['mid'])
    if accepted or not case.get('priors'):
        F = None
    st = _trim(T, nodes, I, O)
    if st != 'ok':
        side['err'] = True
        return ';'.join(out + [st])
    if F is not None and _trim(F, nodes, I, O) != 'ok':
        raise RuntimeError('fresh model rejected the corrected trim')
    index = {_addr_key(n[1]): i for i, n in enumerate(nodes)}
    keep = sorted(index.get(a, 10 ** 6) for a in T.cell_map)
    lost = sorted(index[a] for a, c in T.cell_map.items()
                  if a in index and nodes[index[a]][0] == 'F' and not c.formula)
    # frozen formula cells: value held by T right after the trim vs the value U computes for the cell now
    for i in lost:
        held = core.enc(T.cell_map[_addr_key(nodes[i][1])].value)
        side['frozen'].append((i, held, enc_result(nodes, i, U.evaluate(nodes[i][1]))))
    with tempfile.TemporaryDirectory(prefix='c08-') as d:
        path = os.path.join(d, 'm.' + case['fmt'])
        T.to_file(path)
        L = ExcelCompiler.from_file(path)
    for o in O:
        U.evaluate(nodes[o][1])
    out += ['ok', 'K' + ','.join(map(str, keep)), 'Z' + ','.join(map(str, lost))]

    def do_round(rnd, compared):
        ws = _round_writes(nodes, rnd)
        as_range = bool(rnd) and rnd[0] == 'R' and all(
            _addr_key(nodes[m][1]) in c.cell_map for m, _ in ws for c in (T, U, L) + ((F,) if F else ()))
        if as_range:
            rn = nodes[rnd[1]]
            vals = [_py(t) for t in rnd[2]]
            grid = [vals[r * rn[3]:(r + 1) * rn[3]] for r in range(rn[2])]
            for c in (T, U, L) + ((F,) if F else ()):
                c.set_value(rn[1], grid)
            acks = ['ok'] * len(ws)
        else:
            acks = []
            for i, t in ws:
                v = _py(t)
                acks.append(_write(T, nodes, i, v))
                _write(U, nodes, i, v)
                _write(L, nodes, i, v)
                if F:
                    _write(F, nodes, i, v)
        t_out, l_out, u_out = _outs(T, nodes, O), _outs(L, nodes, O), _outs(U, nodes, O)
        side['f'].append(_outs(F, nodes, O) if F else None)
        side['t'].append(t_out)
        side['l'].append(l_out)
        side['u'].append(u_out)
        if compared:
            out.append('~'.join(acks + t_out + ['L'] + l_out))

    for rnd in case['rounds']:
        do_round(rnd, True)
    if case.get('extra'):
        do_round(case['extra'], False)
    return ';'.join(out)


# ---------------------------------------------------------------------------------------------------------------
# model side

def model_lines(case):
    if case.get('raw'):
        return ['c08 raw']
    nodes = case['nodes']
    toks = ['c08', str(len(nodes))]
    for n in nodes:
        if n[0] == 'I':
            toks += ['I', n[2]]
        elif n[0] == 'F':
            kind, args = n[2], n[3]
            if kind in ('cat', 'sum', 'cnt'):
                toks += ['F', kind, str(len(args))] + [str(j) for j in args]
            else:
                toks += ['F', kind] + [str(j) for j in args]
        else:
            toks += ['R', str(n[2]), str(n[3])] + [str(j) for j in n[4]]
    toks += [str(len(case['I']))] + [str(i) for i in case['I']]
    toks += [str(len(case['O']))] + [str(o) for o in case['O']]
    toks.append(str(len(case['pre'])))
    for op in case['pre']:
        toks += ['S', str(op[1]), op[2]] if op[0] == 'S' else ['E', str(op[1])]
    toks.append(str(len(case.get('priors', []))))
    for pr in case.get('priors', []):
        toks += [str(len(pr['I']))] + [str(i) for i in pr['I']]
        toks += [str(len(pr['O']))] + [str(o) for o in pr['O']]
        toks.append(str(len(pr['mid'])))
        for op in pr['mid']:
            toks += ['S', str(op[1]), op[2]] if op[0] == 'S' else ['E', str(op[1])]
    toks.append(str(len(case['rounds'])))
    for rnd in case['rounds']:
        ws = _round_writes(nodes, rnd)
        toks.append(str(len(ws)))
        for i, t in ws:
            toks += [str(i), t]
    return [' '.join(toks)]


def _close(x, y):
    if x.startswith('n:') and y.startswith('n:'):
        a, b = core.dec(x), core.dec(y)
        return abs(a - b) <= max(1, abs(a), abs(b)) / 10 ** 12
    return False


_UNDECIDED_OK = {'b:0', 'b:1', core.enc_text('hi'), core.enc_text('lo')}


def same(impl_out, model_out):
    """token-wise: equal; or both numbers within 1e-12 (the model computes in exact rationals, pycel in floats); or the
    model answered `u` (a comparison whose exact operands tie within 1e-9) and pycel a logical / hi / lo"""
    if impl_out == model_out:
        return True
    if impl_out is None or model_out is None:
        return False
    import re
    ta, tb = re.split(r'([;~ ])', impl_out), re.split(r'([;~ ])', model_out)
    if len(ta) != len(tb):
        return False
    for x, y in zip(ta, tb):
        if x == y or (y == 'u' and x in _UNDECIDED_OK) or _close(x, y):
            continue
        return False
    return True


def governed(case):
    return True      # the property fixes every output value; status / cell map sections follow the code


def oracles(results):
    for r in results:
        side = _SIDE.get(json.dumps(r.case, sort_keys=True))
        if side is None or side.get('err'):
            continue
        nodes, O = r.case['nodes'], r.case['O']
        if ';ok;K' not in ';' + r.impl:
            yield r.case, f'trim_graph or save/load raised: {r.impl[:160]}'
            continue
        bad = False
        for i, held, want in side['frozen']:
            if held != want:
                yield r.case, (f'frozen cell {nodes[i][1]} holds {core.show(held)} but its value at trim time is '
                               f'{core.show(want)}')
                bad = True
                break
        if bad:
            continue
        ref = 'untrimmed' if not any(x == 'P:ok' for x in r.impl.split(';')) else 'once-trimmed (reference)'
        for k, (t, l, u, fr) in enumerate(zip(side['t'], side['l'], side['u'], side['f'])):
            what = f'round #{k}' if k < len(r.case['rounds']) else 'extra round'
            if fr is not None and fr != t:
                yield r.case, (f'{what}: after a rejected trim_graph and the corrected call the outputs are '
                               f'{[core.show(x) for x in t]}, a fresh model trimmed once with the corrected lists '
                               f'gives {[core.show(x) for x in fr]}')
                bad = True
                break
            for o, a, b, c in zip(O, t, l, u):
                if c.startswith('!'):
                    yield r.case, f'{what}: untrimmed model raised on {nodes[o][1]}: {c}'
                    bad = True
                elif a != c:
                    yield r.case, (f'{what}: output {nodes[o][1]} = {core.show(a)} on the trimmed model but '
                                   f'{core.show(c)} on the {ref} model')
                    bad = True
                elif b != c:
                    yield r.case, (f'{what}: output {nodes[o][1]} = {core.show(b)} on the trimmed+reloaded model but '
                                   f'{core.show(c)} on the {ref} model')
                    bad = True
                if bad:
                    break
            if bad:
                break


def finding_key(case, impl_out, model_out):
    """buried.blank: the first output on which the three real models differ reads (or is) a buried input — a formula
    cell given as input — whose latest write is None.  The untrimmed model cannot hold a blank in a formula cell
    (`None` = not computed yet: the formula's value comes back), the trimmed models hold the blank."""
    side = _SIDE.get(json.dumps(case, sort_keys=True))
    if not side or side.get('err'):
        return None
    nodes, O = case['nodes'], case['O']
    rounds = list(case['rounds']) + ([case['extra']] if case.get('extra') else [])
    clo = closure(nodes)
    current = {}
    for k, (t, l, u) in enumerate(zip(side['t'], side['l'], side['u'])):
        if k < len(rounds):
            for i, tok in _round_writes(nodes, rounds[k]):
                current[i] = tok
        for o, a, b, c in zip(O, t, l, u):
            if a != c or b != c:
                blanks = {i for i, tok in current.items() if tok == 'z' and nodes[i][0] == 'F'}
                if blanks and (o in blanks or clo[o] & blanks):
                    return 'buried.blank'
                return None
    return None


# ---------------------------------------------------------------------------------------------------------------
# coverage

def _ikind(case):
    nodes = case['nodes']
    kinds = {nodes[i][0] for i in case['I']}
    if 'R' in kinds:
        return 'range'
    if 'F' in kinds:
        return 'buried'
    return 'leaf'


def bucket(case):
    if case.get('raw'):
        return 'raw:' + case['raw']
    if case.get('priors'):
        return case['cfg'] + ':' + case['ptype']
    return case['cfg'] + ':' + ('exh' if case.get('exh') else 'flt' if case.get('flt') else _ikind(case))


def nontrivial(case):
    if case.get('raw'):
        return True
    nodes, I, O = case['nodes'], case['I'], case['O']
    clo = closure(nodes)
    ic = set(input_cells(nodes, I))
    written = set()
    for rnd in case['rounds']:
        written |= {i for i, _ in _round_writes(nodes, rnd)}
    for o in O:
        pre = clo[o]
        if (pre | {o}) & written and any(nodes[j][0] == 'F' and not (clo[j] & ic) for j in pre):
            return True
    return False


# ---------------------------------------------------------------------------------------------------------------
# generators

INTS = [0, 1, -1, 2, 5, 10, -3, 7]
TEXTS = ['a', 'b', '', 'x y', 'Zz']


def rand_value(rng, allow_none=True):
    r = rng.random()
    if r < 0.12 and allow_none:
        return None
    if r < 0.22:
        return rng.choice([True, False])
    if r < 0.70:
        return rng.choice(INTS)
    if r < 0.76:
        return ''
    return rng.choice(TEXTS)


FLOATS = [0.1, 0.2, 0.3, 0.1 + 0.2, 1 / 3, 2 / 3, 0.7, 1.1, 2.2, 3.3, 0.1 + 0.7, 1.0000000000000002, 123.45600000000002,
          4097.283318073775, 0.30000000000000004, 1e-3 + 2e-3, 19.99, 0.07, 5.0, 2.5, -0.1, -1 / 3, 100 / 7, 3.0]


def rand_float(rng):
    r = rng.random()
    if r < 0.55:
        return rng.choice(FLOATS)
    if r < 0.8:
        return rng.uniform(-50, 50)                 # 16-17 significant digits
    if r < 0.9:
        return round(rng.uniform(0, 100), 2) + round(rng.uniform(0, 1), 3)   # a sum of decimals
    return float(rng.randint(-5, 20))


def colname(c):
    return 'ABCDEFG'[c - 1]


def gen_workbook(rng, flt=False):
    """-> nodes (topological).  Cells of Sheet1 row-major with the cells of an optional second sheet interleaved.
    flt: float-valued workbook (non-dyadic floats, + - /c SUM COUNT INDEX; no text rendering of numbers)"""
    ncols, nrows = rng.randint(1, 3), rng.randint(2, 4)
    order = [('Sheet1', c, r) for r in range(1, nrows + 1) for c in range(1, ncols + 1)]
    grids = {'Sheet1': (ncols, nrows)}
    if rng.random() < 0.35:
        k = rng.randint(1, 3)
        grids['Data 2'] = (1, k)
        for r in range(1, k + 1):
            order.insert(rng.randint(0, len(order)), ('Data 2', 1, r))
        pos = [i for i, o in enumerate(order) if o[0] == 'Data 2']
        for p, r in zip(pos, range(1, k + 1)):
            order[p] = ('Data 2', 1, r)
    nodes, index, rng_index = [], {}, {}
    placed = set()

    def sheet_q(s):
        return f"'{s}'" if ' ' in s else s

    def rects():
        out = []
        for s, (nc, nr) in grids.items():
            for c1 in range(1, nc + 1):
                for c2 in range(c1, nc + 1):
                    for r1 in range(1, nr + 1):
                        for r2 in range(r1, nr + 1):
                            size = (c2 - c1 + 1) * (r2 - r1 + 1)
                            if 2 <= size <= 6 and all((s, c, r) in placed for c in range(c1, c2 + 1)
                                                      for r in range(r1, r2 + 1)):
                                out.append((s, c1, r1, c2, r2))
        return out

    def range_node(rect):
        if rect not in rng_index:
            s, c1, r1, c2, r2 = rect
            members = [index[(s, c, r)] for r in range(r1, r2 + 1) for c in range(c1, c2 + 1)]
            nodes.append(['R', f'{sheet_q(s)}!{colname(c1)}{r1}:{colname(c2)}{r2}', r2 - r1 + 1, c2 - c1 + 1, members])
            rng_index[rect] = len(nodes) - 1
        return rng_index[rect]

    p_formula = rng.choice([0.45, 0.6, 0.7])
    for pos in order:
        s, c, r = pos
        addr = f'{sheet_q(s)}!{colname(c)}{r}'
        cellnodes = [i for i, n in enumerate(nodes) if n[0] != 'R']
        if cellnodes and rng.random() < p_formula:
            rs = rects()
            if flt:
                kind = rng.choice(['ref', 'add', 'add', 'sub', 'sum', 'sum', 'divc', 'divc', 'cnt', 'idx'])
            else:
                kind = rng.choice(['ref', 'cat', 'cat', 'add', 'add', 'sub', 'eq', 'sum', 'sum', 'cnt', 'idx'])
            if kind == 'idx' and not rs:
                kind = 'add'
            if kind == 'ref':
                args = [rng.choice(cellnodes)]
            elif kind == 'cat':
                args = [rng.choice(cellnodes) for _ in range(rng.randint(1, 3))]
            elif kind in ('add', 'sub', 'eq'):
                args = [rng.choice(cellnodes), rng.choice(cellnodes)]
            elif kind == 'divc':
                args = [rng.choice(cellnodes), _tok(rng.choice([3, 7, 9, 11, 0.3]))]
            elif kind in ('sum', 'cnt'):
                args = []
                for _ in range(rng.randint(1, 3)):
                    if rs and rng.random() < 0.7:
                        args.append(range_node(rng.choice(rs)))
                    else:
                        args.append(rng.choice(cellnodes))
            else:
                rn = range_node(rng.choice(rs))
                args = [rn, rng.randint(1, nodes[rn][2]), rng.randint(1, nodes[rn][3])]
            nodes.append(['F', addr, kind, args])
        else:
            nodes.append(['I', addr, _tok(rand_float(rng) if flt else rand_value(rng))])
        index[pos] = len(nodes) - 1
        placed.add(pos)
    rs = [x for x in rects() if x not in rng_index]
    rng.shuffle(rs)
    for rect in rs[:rng.randint(0, 2)]:
        range_node(rect)
    return nodes


def gen_pre(rng, nodes, cfg, flt=False):
    if cfg == 'never':
        return []
    n = len(nodes)
    if cfg == 'fully':
        ops = [['E', a] for a in range(n)]
        if rng.random() < 0.5:      # fully evaluated, then some value cells changed and everything evaluated again
            leaves = [i for i, x in enumerate(nodes) if x[0] == 'I']
            for i in rng.sample(leaves, min(len(leaves), rng.randint(1, 2))):
                ops.append(['S', i, _tok(rand_float(rng) if flt else rand_value(rng))])
            ops += [['E', a] for a in range(n)]
        return ops
    ops = []
    leaves = [i for i, x in enumerate(nodes) if x[0] == 'I']
    for _ in range(rng.randint(1, 6)):
        if leaves and ops and rng.random() < 0.4:
            ops.append(['S', rng.choice(leaves), _tok(rand_float(rng) if flt else rand_value(rng))])
        else:
            ops.append(['E', rng.randrange(n)])
    return ops


def add_thresholds(rng, nodes):
    """float workbooks: append 1-2 cells that compare a numeric cell with a constant next to its current value (the value
    itself, its 15-significant-digit rounding, or a neighbouring float): a last-bit change of the compared cell flips
    them.  -> indices of the appended nodes"""
    import math
    numeric = [i for i, n in enumerate(nodes) if n[0] == 'F' and n[2] in ('add', 'sub', 'sum', 'divc', 'ref', 'idx')]
    numeric = numeric or [i for i, n in enumerate(nodes) if n[0] == 'I']
    comp = pyc.compiler_from(cells_of(nodes))
    added = []
    for k in range(rng.randint(1, 2)):
        j = rng.choice(numeric)
        try:
            v = comp.evaluate(nodes[j][1])
        except Exception:   # noqa
            continue
        if isinstance(v, bool) or not isinstance(v, (int, float)) or not math.isfinite(v) or not 1e-4 < abs(v) < 1e6:
            continue
        v = float(v)
        c = rng.choice([v, float(f'{v:.15g}'), float(f'{v:.15g}'), math.nextafter(v, -math.inf),
                        math.nextafter(v, math.inf)])
        kind = rng.choice(['gt', 'eqc', 'ifgt'])
        nodes.append(['F', f'Sheet1!H{k + 1}', kind, [j, _tok(c)]])
        added.append(len(nodes) - 1)
    return added


def gen_io(rng, nodes, must_out=()):
    n = len(nodes)
    clo = closure(nodes)
    formulas = [i for i, x in enumerate(nodes) if x[0] == 'F']
    ranges = [i for i, x in enumerate(nodes) if x[0] == 'R']
    cand_out = formulas * 3 + ranges + list(range(n))
    O = list(must_out)
    for _ in range(max(1 - len(O), rng.choice([0, 1, 1, 2]))):
        # of three candidates the one with the most precedents: outputs that are functions of something
        o = max((rng.choice(cand_out) for _ in range(3)), key=lambda x: len(clo[x]))
        if o not in O:
            O.append(o)
    strict = sorted(set().union(*[clo[o] for o in O]))
    feeding = sorted(set(strict) | set(O))
    I = []
    for k in range(rng.choice([1, 1, 1, 2, 2, 3])):
        r = rng.random()
        if strict and (k == 0 and r < 0.9):
            # the first input nearly always feeds an output, and preferably leaves a formula precedent of the outputs
            # that does not read it (something to freeze)
            i = rng.choice(strict)
            for _ in range(6):
                if any(nodes[j][0] == 'F' and j != i and i not in clo[j] for j in strict):
                    break
                i = rng.choice(strict)
        elif r < 0.70 and feeding:
            i = rng.choice(feeding)         # leaf or buried cell or range that feeds an output (or is one)
        elif r < 0.85 and ranges:
            i = rng.choice(ranges)
        else:
            i = rng.randrange(n)            # anything: may feed no output at all
        if i not in I:
            I.append(i)
    return I, O


def gen_rounds(rng, nodes, I, O, nrounds, flt=False):
    w = writable(nodes, I, O)
    val = (lambda i: rand_float(rng)) if flt else (
        lambda i: rand_value(rng, allow_none=nodes[i][0] == 'I' or rng.random() < 0.1))
    rounds = [[]]
    for _ in range(nrounds):
        rnd = []
        rin = [i for i in I if nodes[i][0] == 'R' and all(m in w for m in nodes[i][4])]
        if rin and rng.random() < 0.4:
            rn = rng.choice(rin)
            rnd = ['R', rn, [_tok(rand_float(rng) if flt else rand_value(rng, allow_none=nodes[m][0] == 'I'))
                             for m in nodes[rn][4]]]
        elif w:
            for i in rng.sample(w, min(len(w), rng.randint(1, 3))):
                # None over a buried input only now and then (known finding buried.blank masks the rest of the case)
                rnd.append([i, _tok(val(i))])
        rounds.append(rnd)
    ic = input_cells(nodes, I)
    extra = [[i, _tok(rand_float(rng) if flt else rand_value(rng, allow_none=False))]
             for i in ic if i not in w and nodes[i][0] == 'F']
    return rounds, extra


def _fixed():
    t = _tok
    # A1=0.1, A2=0.2, A1:A2, B1=A1+A1 (reads a member directly), C1=SUM(A1:A2,B1), C2=1/3, C3=C2+C2 (buried), D1=C1+C3
    w1 = [['I', 'Sheet1!A1', t(0.1)], ['I', 'Sheet1!A2', t(0.2)], ['R', 'Sheet1!A1:A2', 2, 1, [0, 1]],
          ['F', 'Sheet1!B1', 'add', [0, 0]], ['F', 'Sheet1!C1', 'sum', [2, 3]], ['I', 'Sheet1!C2', t(1 / 3)],
          ['F', 'Sheet1!C3', 'add', [5, 5]], ['F', 'Sheet1!D1', 'add', [4, 6]]]
    # the recon workbook with a tail: A1=5, B1=4, B2=B1+B1, C1=A1+B2, C2=C1&"|"&B2&"|", blank D1, E1=D1&"|"
    w2 = [['I', 'Sheet1!A1', t(5)], ['I', 'Sheet1!B1', t(4)], ['F', 'Sheet1!B2', 'add', [1, 1]],
          ['F', 'Sheet1!C1', 'add', [0, 2]], ['F', 'Sheet1!C2', 'cat', [3, 2]], ['I', 'Sheet1!D1', t(None)],
          ['F', 'Sheet1!E1', 'cat', [5]]]
    # nested ranges over formula cells, cross sheet: A1, A2=A1, A1:A2, B1=SUM(A1:A2), 'Data 2'!A1=INDEX(A1:A2,2,1),
    # B1:B1? (not a range) -> B2=COUNT(A1:A2,B1), range B1:B2, C1=SUM(B1:B2)&…
    w3 = [['I', 'Sheet1!A1', t(2)], ['F', 'Sheet1!A2', 'ref', [0]], ['R', 'Sheet1!A1:A2', 2, 1, [0, 1]],
          ['F', 'Sheet1!B1', 'sum', [2]], ['F', "'Data 2'!A1", 'idx', [2, 2, 1]], ['F', 'Sheet1!B2', 'cnt', [2, 3]],
          ['R', 'Sheet1!B1:B2', 2, 1, [3, 5]], ['F', 'Sheet1!C1', 'sum', [6, 4]]]
    return [w1, w2, w3]


def _fixed_pre(nodes, cfg):
    if cfg == 'never':
        return []
    if cfg == 'fully':
        return [['E', a] for a in range(len(nodes))]
    leaf = next(i for i, n in enumerate(nodes) if n[0] == 'I')
    return [['E', len(nodes) - 1], ['S', leaf, _tok(9)], ['E', 3]]


def exhaustive_cases(thorough):
    import itertools
    for w in _fixed()[:3 if thorough else 1]:
        n = len(w)
        pairs = [list(p) for p in itertools.combinations(range(n), 2)]
        ins = [[i] for i in range(n)] + (pairs if thorough else pairs[::2])
        outs = [[o] for o in range(n)]
        if thorough:
            outs += [list(p) for p in itertools.combinations(range(n), 2)][::3]
        for cfg in ('never', 'partly', 'fully'):
            for k, (I, O) in enumerate(itertools.product(ins, outs)):
                wr = writable(w, I, O)
                flt = not any(x[0] == 'F' and x[2] == 'cat' for x in w)    # no text rendering of floats
                rounds = [[], [[i, _tok(0.7 + j / 10 if flt else 7 + j)] for j, i in enumerate(wr)],
                          [[i, _tok('a')] for i in wr[:1]]]
                ic = input_cells(w, I)
                extra = [[i, _tok(11)] for i in ic if i not in wr and w[i][0] == 'F']
                yield {'cfg': cfg, 'fmt': ('yml', 'json', 'pkl')[k % 3] if thorough else 'json', 'nodes': w,
                       'I': I, 'O': O, 'pre': _fixed_pre(w, cfg), 'rounds': rounds, 'extra': extra, 'exh': 1}


def raw_cases(thorough):
    k = 0
    for kind in ('column', 'row', 'cycles'):
        for vals in ([5, 1, 2, 8, 0.1], [0.1, 0.2, 1 / 3, 0.7, -3], [0, 4, 10, 1, 2]) if thorough else ([5, 4, 10, 8, 0.1],):
            for ev in (0, 1):
                for fmt in ('yml', 'json', 'pkl') if thorough else ('json',):
                    k += 1
                    yield {'raw': kind, 'vals': vals, 'evaluated': ev, 'fmt': fmt}


def with_retry(rng, case):
    """a REJECTED trim_graph call first: the input list names an evaluated value cell nothing depends on instead of the
    last input; the caller goes on (evaluates, writes) and calls again with the corrected lists"""
    nodes = [list(n) for n in case['nodes']]
    nodes.append(['I', 'Sheet1!G9', _tok(3)])
    x = len(nodes) - 1
    I = case['I']
    wrong = I[:-1] + [x] if rng.random() < 0.7 else I + [x]
    leaves = [i for i, n in enumerate(nodes[:-1]) if n[0] == 'I']
    mid = []
    for _ in range(rng.randint(0, 3)):
        if leaves and rng.random() < 0.5:
            mid.append(['S', rng.choice(leaves), _tok(rand_float(rng) if case.get('flt') else rand_value(rng))])
        else:
            mid.append(['E', rng.randrange(len(nodes))])
    c = dict(case, nodes=nodes, pre=case['pre'] + [['E', x]], priors=[{'I': wrong, 'O': case['O'], 'mid': mid}],
             ptype='retry')
    return c


def with_retrim(rng, case):
    """an ACCEPTED trim_graph call first, then the call under test on the already trimmed model with the same, a smaller
    or a larger input / output list"""
    nodes, I, O = case['nodes'], case['I'], case['O']
    n = len(nodes)
    r = rng.random()
    I1, O1 = list(I), list(O)
    if r < 0.3:
        pass                                            # same lists twice
    elif r < 0.5 and len(I) > 1:
        I1 = I[:-1]                                     # the second call has a larger input list
    elif r < 0.7:
        I1 = I + [i for i in [rng.randrange(n)] if i not in I]      # … a smaller one
    elif r < 0.85 and len(O) > 1:
        O1 = O[:-1]                                     # … a larger output list
    else:
        O1 = O + [o for o in [rng.randrange(n)] if o not in O]      # … a smaller one
    # between the calls only value cells are written (should the first call be rejected, a buried input is still a
    # formula cell); the second call lists no value cell that feeds none of its outputs: whether that raises depends on
    # the dependency graph, which keeps the edges of deleted cells (not compared)
    w = [i for i in writable(nodes, I1, O1) if nodes[i][0] == 'I']
    clo = closure(nodes)
    fed = set().union(*[clo[o] | {o} for o in O])
    I2 = [i for i in I if nodes[i][0] != 'I' or i in fed] or I
    case = dict(case, I=I2)
    mid = []
    for _ in range(rng.randint(0, 3)):
        if w and rng.random() < 0.6:
            mid.append(['S', rng.choice(w), _tok(rand_float(rng) if case.get('flt') else rand_value(rng, False))])
        else:
            mid.append(['E', rng.choice(O1)])
    # no writes before the first trim: a cell it deletes and the second call re-creates (larger output list) comes back
    # from the attached workbook with its file value, not with the written one (outside the property, see ASSUMPTIONS)
    pre = [op for op in case['pre'] if op[0] == 'E']
    return dict(case, pre=pre, priors=[{'I': I1, 'O': O1, 'mid': mid}], ptype='retrim')


def cases(tier, rng):
    thorough = tier == 'thorough'
    yield from raw_cases(thorough)
    yield from exhaustive_cases(thorough)
    cfgs = ['never', 'partly', 'fully']
    fmts = ['json', 'yml', 'pkl', 'json']
    for k in range(3000 if thorough else 400):
        nodes = gen_workbook(rng)
        for _ in range(2 if thorough else 1):
            cfg = cfgs[k % 3]
            I, O = gen_io(rng, nodes)
            rounds, extra = gen_rounds(rng, nodes, I, O, rng.randint(2, 3))
            c = {'cfg': cfg, 'fmt': fmts[(k // 3) % 4], 'nodes': nodes, 'I': I, 'O': O,
                 'pre': gen_pre(rng, nodes, cfg), 'rounds': rounds, 'extra': extra}
            yield [c, with_retry(rng, c), with_retrim(rng, c)][(k // 3) % 3] if k % 2 else c
    # float-valued workbooks with threshold outputs
    for k in range(2400 if thorough else 600):
        nodes = gen_workbook(rng, flt=True)
        thr = add_thresholds(rng, nodes)
        for _ in range(2 if thorough else 1):
            cfg = cfgs[k % 3]
            I, O = gen_io(rng, nodes, must_out=thr[:1] if rng.random() < 0.8 else ())
            rounds, extra = gen_rounds(rng, nodes, I, O, rng.randint(2, 3), flt=True)
            c = {'cfg': cfg, 'fmt': fmts[(k // 3) % 4], 'nodes': nodes, 'I': I, 'O': O, 'flt': 1,
                 'pre': gen_pre(rng, nodes, cfg, flt=True), 'rounds': rounds, 'extra': extra}
            yield [c, with_retry(rng, c), with_retrim(rng, c)][(k // 3) % 3] if k % 2 else c

"""C15 — conditional aggregation: COUNTIF(S), SUMIF(S), AVERAGEIF(S), MAXIFS, MINIFS
(excelutil.criteria_parser / build_wildcard_re / handle_ifs, lib/stats.py, excellib.py).  DESIGN.md §7 C15.

A case expands (`queries`) into a fixed list of function evaluations; implementation output and model output are the
'|'-joined answers.  Kinds:
    call       one evaluation  fn(args…)
    partition  COUNTIF(rng,"="+x) | COUNTIF(rng,"<>"+x)                       (x a criteria text without operator)
    commute    fn(agg?, pairs…) | fn(agg?, permuted pairs…)
    ifs1       …IF(rng, crit[, agg]) | …IFS([agg,] rng, crit)
    avg        AVERAGEIFS(agg, pairs…) | SUMIFS(agg, pairs…) | COUNTIFS(pairs…)   (agg numeric)
    seq        scenario SEQ[i] in fresh processes:  main alone | prelude | main right after the prelude
A `call` case may carry `prelude`: a call evaluated just before it in the same process (only the main call is compared).
`via` selects the observation point:
    f   a formula ("=COUNTIF(A1:C5,E1)") compiled by ExcelFormula and evaluated through build_eval_context with range
        and cell reads answered from a dict — exactly what evaluating a cell holding the formula does, minus the
        workbook (criteria as literals in the formula text when `lit`, otherwise read from a cell);
    l   pyc.lib_call(name, tuple-of-tuples…): the library function as the compiled formula calls it.
An argument is a protocol token (scalar) or a list [rows, cols, tok…] (a range, row-major).
"""
import itertools
import json
import math
import os
import re
import subprocess
import sys

from harness import core, pyc

ID = 'C15'
LEAN_MODULE = 'Pycel.Props.C15'
NS = 'Pycel.Criteria.'
THEOREMS = [NS + t for t in (
    'C15_operator_table', 'C15_operator_pattern',
    'C15_sat_numeric', 'C15_sat_numeric_nonnumber', 'C15_sat_text', 'C15_sat_text_nontext', 'C15_sat_text_case',
    'C15_wild_spec', 'C15_wild_tokens', 'C15_wild_parse', 'C15_wild_literal',
    'C15_selects_exactly', 'C15_selects_mem', 'C15_size_mismatch',
    'C15_countif_spec', 'C15_countifs_spec', 'C15_aggregate_spec',
    'C15_ifs1_eq_if', 'C15_commute', 'C15_partition_cell', 'C15_partition',
    'C15_avg', 'C15_total', 'C15_duplicate_pair', 'C15_duplicate_pair_functions')]
DESIGN_REF = 'DESIGN.md §7 C15'
RULE = ('deterministic core: every criterion of the grammar (numbers, numeric text, "op number", text, "op text", '
        'wildcards with and without = / <>, ~ escapes, regex metacharacters, empty, "=", "<>") against every cell of a '
        'mixed pool (numbers, text incl. numeric text and wildcard/metacharacter text, logicals, blank, error values) as '
        'a one-cell COUNTIF (lib and formula), then each criterion over the whole pool as one column through all eight '
        'functions, the partition pair for every criteria text, every ordered pair of pool cells (thorough).  Random: '
        'ranges 1..5 x 1..3 filled in four styles (mixed / numbers / text / mixed with errors), 1-3 criteria pairs, all '
        'eight functions, via formula (literal or referenced criteria) and lib; composite cases partition / commute '
        '(random permutation) / ifs1 / avg.  Near-equal numbers (1 ulp apart, 0.1+0.2 vs 0.3, integers beyond 2^53 '
        'differing by 1; exact rationals to the model): every near value as number / text / op+text criterion x every '
        'near cell, partition and ...IFS over the near column, and in the random stream.  Sequences: criteria that '
        'are ==-equal in Python but differently typed (1/TRUE/"1", 0/FALSE/"") in consecutive calls, both orders: '
        'also float twins (1.0, 0.0, 10/10 computed by cell arithmetic), every ordered pair: `seq` scenarios (library '
        'calls; ONE compiled formula whose criterion cell changes type TRUE -> 1.0 -> TRUE; a real workbook with '
        'set_value on the criterion cell) each in a FRESH interpreter process and again inside the checking process, '
        'oracle: every call gives what it gives as the first call of a fresh process; plus adjacent `prelude` pairs.  '
        'Exotic numeric spellings as TEXT cells (1_0, full-width / Arabic-Indic / Devanagari digits, NBSP / thin-space '
        'padding, inf, nan, 0x10, and the Excel-numeric " 10 ", +10, 1e1, 10.0) against 10 / "10" / "=10" / '
        '"<>10" / ">9" …: only spellings of the Excel grammar fall under the known finding.  Single-cell ranges '
        '(scalars) with every falsy value as the aggregated cell.  Non-ASCII text (ß, final sigma, ſ, İ/ı, ǅ, ﬁ, Greek, '
        'Cyrillic, NFC/NFD): reflexivity (`refl`: cell == criterion string under s, "=s", "<>s", one char as ?), partition '
        'and selection over the strings whose lowering the model shares.  Also '
        'a malformed stream: unequal range sizes, blank / logical / error-value '
        'criteria, bare "<" ">" "<=" ">=", scalar range arguments.  A case is non-trivial when a criteria range has '
        '>= 2 cells of >= 2 kinds or it is a one-cell case of the deterministic core; distinct = distinct case dict.')
ASSUMPTIONS = [
    'ranges are rectangular (every Excel range is); the protocol can only express rectangular arrays',
    'numbers are dyadic rationals of moderate size so Python float sums are exact; AVERAGE…’s final division is '
    'compared with a relative tolerance of 1e-12',
    'case-insensitive = Python str.lower() on both sides (the code); the model maps ASCII and Latin-1 letters only.  '
    'Non-ASCII text (ß, ς/σ, ſ, İ/ı, ǅ, ﬁ, Greek, Cyrillic, NFC/NFD) is generated (a) as a cell EQUAL to the criterion '
    'string (reflexivity, "<>" complement, one character replaced by ? — needs no model of case folding) and (b) in '
    'ranges only for strings whose str.lower() is the model’s lower (so Σ vs σ, ǅ vs ǆ, İ vs i are never compared '
    'across case: that comparison is assumed to be str.lower() and is not checked); no line breaks in criteria',
    'numeric text is read by Ops.parseNum? (C10): the generator only produces texts on which it agrees with '
    'Python float()/int() (no "inf", "nan", "1_0", Unicode digits)',
    'criteria are scalars of the grammar in the property’s quantifier; logical, blank, error-value and array criteria '
    'and the bare operators "<" ">" "<=" ">=" are outside it: the model follows the code there (ungoverned)',
    'logicals inside the aggregated range count as 1/0 (keep_bools=True in the code): not decided by the property',
]
TRUSTED = ['modelled, not verified: Python re (only as the implementation of the fixed build_wildcard_re), str.lower, '
           'str comparison, collections.Counter insertion order, sum/max/min, the formula compiler path']
EXHAUSTIVE = False

FNS = ('countif', 'countifs', 'sumif', 'sumifs', 'averageif', 'averageifs', 'maxifs', 'minifs')
XL = {f: f.upper() for f in FNS}
IFS_OF = {'countif': 'countifs', 'sumif': 'sumifs', 'averageif': 'averageifs'}
REQUIRED_BUCKETS = ['core:' + k for k in ('number', 'opnumber', 'text', 'optext', 'wild', 'empty')] + \
                   ['call:' + f for f in FNS] + ['partition', 'commute', 'ifs1', 'avg', 'malformed:size',
                                                 'malformed:criteria', 'near', 'seq', 'prelude', 'exotic', 'single', 'unicode']

S = core.enc_text
OPS = ('', '=', '<>', '<', '<=', '>', '>=')
OPER_RE = re.compile(r'(=|<>|<=?|>=?)?(.*)', re.S)
# numeric text as Excel (and the model, Ops.parseNum?) reads it: ASCII digits, ASCII white space, optional exponent.
# Python's float()/int() read more ('1_0', full-width and Arabic-Indic digits, NBSP-padded digits, 'inf', 'nan'): those
# are plain TEXT, also for the known finding numeric-text-equals-number, whose matcher must not swallow them.
EXCEL_NUM_TEXT = re.compile(r'[ \t\n\v\f\r]*[+-]?([0-9]+\.?[0-9]*|\.[0-9]+)([eE][+-]?[0-9]+)?[ \t\n\v\f\r]*')
PLAIN_NUM = re.compile(r'[+-]?([0-9]+(\.[0-9]*)?|\.[0-9]+)')

NUM_CELLS = [0, 1, 3, -2, 2.5, 10]
TEXT_CELLS = ['a', 'abc', 'ABC', 'a?c', 'a*', 'a+b', 'axc', 'a(b', 'b', '', '1x', 'That', '~', 'a~c', 'a.c', '3',
              '2.5', 'TRUE', 'c', '-2']
OTHER_CELLS = [True, False, None, '#N/A', '#DIV/0!']
NUM_CRIT = [3, 0, 2.5, -2]
TEXT_CRIT = ['a', 'abc', 'ABC', 'b', '1x', 'That', '#N/A', 'true', 'axc', 'a.c']
WILD_CRIT = ['a*', 'a?c', '*', '?', '??', 'a~?c', 'a~*', 'a+*', 'a(*', '*c', '?*', 'a.?', '[a]*', '~~', 'a~', '*b*',
             'a*c', 'A?C', '~a', 'a\\*', '^a*', 'a*$', 'a|b*', 'a{1}*', '~*', '*~?*', 'T??t', '**', 'a~~c']


# near-equal numbers: 1 ulp apart, integers beyond 2^53 differing by 1, 0.1+0.2 against 0.3.  The model receives the
# exact rational of every float, so "=" must separate them exactly as "<>" does.
NEAR = [0.3, 0.1 + 0.2, math.nextafter(0.3, 0), 1, 1 + 2.0 ** -52, 1 - 2.0 ** -53, 10 ** 17, 10 ** 17 + 1,
        10 ** 17 - 1, 2 ** 53, 2 ** 53 + 1, 2 ** 53 - 1, 0.1, math.nextafter(0.1, 1), 123456.789,
        math.nextafter(123456.789, 0)]


def _tok(v):
    return core.enc(v)


POOL = [_tok(v) for v in NUM_CELLS] + [S(t) for t in TEXT_CELLS] + [_tok(v) for v in OTHER_CELLS]


# text that Python's float()/int() accept (or nearly) around the number 10 / 1: Excel-numeric spellings (' 10 ', '+10',
# '1e1', '10.0', '1E1', '010') and spellings that are plain text in Excel ('1_0', full-width, Arabic-Indic, NBSP / thin
# space padded, 'inf', 'nan', '0x10', '10 000', '1,0')
EXOTIC_CELLS = ['10', ' 10 ', '+10', '1e1', '1E1', '10.0', '010', '\t10\n', '1_0', '\uff11\uff10', '\u0661\u0660',
                '\u00a010', '10\u00a0', '\u200910\u2009', '\u300010', 'inf', '-inf', 'nan', 'Infinity', '0x10', '0b10',
                '10 000', '1,0', '1__0', '_10', '10_', '\u0967\u0966', '1e', 'e1', '1_0.0', '1e1_0']
EXOTIC_CRIT_VALUES = [10, 1e10, 0]


# non-ASCII text where lower() and casefold() differ or case mapping is irregular
UNI = ['straße', 'STRASSE', 'Straße', 'strasse', 'ß', '\u1e9e', 'ς', 'σ', 'Σ', 'σίσυφος', 'ΣΊΣΥΦΟΣ', 'ὈΔΥΣΣΕΎΣ', 'ſ',
       'ſtop', 'stop', 'İstanbul', 'ıstanbul', 'istanbul', 'ǅ', 'ǆ', 'Ǆ', 'ﬁ', 'ﬁn', 'fin', 'привет', 'ПРИВЕТ', 'é',
       'e\u0301', 'É', 'E\u0301', 'ǰ', 'ŉ', '\u212a', 'k', '\u212b', 'å', 'ÿ', 'Ÿ', 'µ', 'μ']


def _model_lower(t):
    """Ops.lower of the Lean model: ASCII and Latin-1 letters"""
    return ''.join(chr(ord(ch) + 32) if (65 <= ord(ch) <= 90 or (192 <= ord(ch) <= 222 and ord(ch) != 215)) else ch
                   for ch in t)


# strings on which Python's lower and the model's lower agree: only these meet OTHER strings inside a range
UNI_AGREE = [t for t in UNI if t.lower() == _model_lower(t)]


def _one_char_pattern(t):
    """t with one character replaced by `?` such that, under str.lower(), the pattern still describes t (case mapping
    can depend on context or change the length: final sigma, İ)"""
    for k in range(len(t)):
        pat = t[:k] + '?' + t[k + 1:]
        if wild_match(pat.lower(), t.lower()):
            return pat
    return None


def _criteria():
    """the criteria grammar, as (class, token)"""
    out = []
    for n in NUM_CRIT:
        out.append(('number', _tok(n)))
        for op in OPS:
            out.append(('number' if op == '' else 'opnumber', S(op + repr(n))))
    for t in TEXT_CRIT:
        for op in OPS:
            out.append(('text' if op == '' else 'optext', S(op + t)))
    for w in WILD_CRIT:
        for op in ('', '=', '<>'):
            out.append(('wild', S(op + w)))
    for w in ('a*', 'a?c'):
        for op in ('<', '>='):
            out.append(('optext', S(op + w)))
    for e in ('', '=', '<>'):
        out.append(('empty', S(e)))
    return out


CRITS = _criteria()
CRIT_TOKS = [t for _, t in CRITS]
UNGOVERNED_CRIT = [S('<'), S('>'), S('<='), S('>='), 'b:1', 'b:0', 'z', 'e:na', 'e:div0']


def _py(tok):
    """protocol token -> Python value.  Harness-only tokens: `f:p/q` a Python FLOAT also when integral (1.0, 0.0) and
    `q:a/b` the float a/b computed by cell arithmetic (in a formula: two cells and `X1/Y1`); both are the number p/q
    (a/b) for the model."""
    from fractions import Fraction
    if tok[:2] in ('f:', 'q:'):
        a, _, b = tok[2:].partition('/')
        return int(a) / int(b or 1)
    v = core.dec(tok)
    if isinstance(v, Fraction):
        return int(v) if v.denominator == 1 else float(v)
    return v


def _mtok(tok):
    """the token the model sees"""
    if tok[:2] in ('f:', 'q:'):
        return core.enc(_py(tok))
    return tok


def _pyarg(a):
    if isinstance(a, list):
        r, c = a[0], a[1]
        vals = [_py(t) for t in a[2:]]
        return tuple(tuple(vals[i * c:(i + 1) * c]) for i in range(r))
    return _py(a)


def rng(r, c, toks):
    assert len(toks) == r * c
    return [r, c] + list(toks)


# ---------------------------------------------------------------------------------------------------------------
# queries

def pair_slots(fn, nargs):
    """(index of the aggregated range or None, [(range index, criterion index)…])"""
    if fn == 'countif':
        return None, [(0, 1)]
    if fn == 'countifs':
        return None, [(i, i + 1) for i in range(0, nargs - 1, 2)]
    if fn in ('sumif', 'averageif'):
        return (2 if nargs > 2 else None), [(0, 1)]
    return 0, [(i, i + 1) for i in range(1, nargs - 1, 2)]


def norm_query(via, fn, args):
    """what the call means once the formula layer has read its arguments: a 1x1 range read through a formula arrives
    as a scalar, and a blank scalar as the optional third argument of SUMIF/AVERAGEIF is `None`, i.e. not given"""
    if via == 'f':
        args = [a[2] if isinstance(a, list) and a[0] == 1 and a[1] == 1 else a for a in args]
    if fn in ('sumif', 'averageif') and len(args) == 3 and args[2] == 'z':
        args = args[:2]
    return fn, args


def queries(c):
    return [norm_query(c['via'], fn, args) for fn, args in raw_queries(c)]


# ---- sequences: criteria that are ==-equal in Python but differently typed — TRUE / 1.0 / 1 / "1" / a float computed by
# cell arithmetic (10/10), FALSE / 0.0 / 0 / "" / 0/10 — in consecutive evaluations, every ordered pair.  A scenario is a
# list of calls evaluated one after the other:
#     via l   library calls;
#     via f   ONE compiled formula ("=COUNTIF(A1:A7,I1)") whose criterion is READ FROM A CELL that changes type between
#             evaluations (TRUE, then 1.0, then TRUE again), or is computed (I1/J1);
#     via wb  a real in-memory workbook (ExcelCompiler): the criterion cell is changed with set_value, the formula cell
#             re-evaluated.
# Every scenario runs in a FRESH interpreter process (`seq`, nothing evaluated earlier can hide or cause a dependence on
# previous calls) and again inside the checking process (`seq` with p=1).  Oracle (implementation only): each call gives
# what the same call gives as the FIRST call of a fresh process.  A case only carries the scenario index; the oracle
# text spells the concrete calls.
SEQ_RANGE = [7, 1, 'n:1/1', 'b:1', 'n:0/1', 'b:0', 's:49', 's:', 'z']
SEQ_VALS = [7, 1] + [f'n:{2 ** k}/1' for k in range(7)]
SEQ_PAIRS = [('b:1', 'n:1/1'), ('n:1/1', 'b:1'), ('b:0', 'n:0/1'), ('n:0/1', 'b:0'), ('n:1/1', 's:49'),
             ('s:49', 'n:1/1'), ('n:0/1', 's:'), ('s:', 'n:0/1'),
             ('b:1', 'f:1/1'), ('f:1/1', 'b:1'), ('f:1/1', 'n:1/1'), ('n:1/1', 'f:1/1'),
             ('b:0', 'f:0/1'), ('f:0/1', 'b:0')]


def _seq_scenarios():
    cnt = lambda t: ('countif', [SEQ_RANGE, t])    # noqa
    out = [('l', [cnt(a), cnt(b)]) for a, b in SEQ_PAIRS]
    out.append(('l', [('countifs', [SEQ_RANGE, 'b:0']), ('sumifs', [SEQ_VALS, SEQ_RANGE, 'f:0/1'])]))
    out.append(('l', [('sumifs', [SEQ_VALS, SEQ_RANGE, 'f:1/1']), ('maxifs', [SEQ_VALS, SEQ_RANGE, 'b:1'])]))
    for a, b in (('b:1', 'f:1/1'), ('b:1', 'q:10/10'), ('b:0', 'f:0/1'), ('b:0', 'q:0/10')):
        out.append(('f', [cnt(a), cnt(b), cnt(a)]))
        out.append(('f', [cnt(b), cnt(a), cnt(b)]))
    for a, b in (('b:1', 'f:1/1'), ('b:0', 'f:0/1')):
        out.append(('wb', [cnt(a), cnt(b), cnt(a)]))
        out.append(('wb', [cnt(b), cnt(a), cnt(b)]))
    return out


SEQ = _seq_scenarios()
_SEQ_OUT = {}
_SEQ_SCRIPT = ('import sys, json; sys.path.insert(0, %r); from harness.props import c15\n'
               'job = json.loads(sys.stdin.readline())\n'
               'print(json.dumps(c15.run_steps(job["via"], job["qs"])))\n'
               % os.path.dirname(os.path.dirname(os.path.dirname(os.path.abspath(__file__)))))


def run_steps(via, qs):
    """evaluate the calls of one scenario one after the other in this process"""
    if via != 'wb':
        return [run_query(via, fn, args, False) for fn, args in qs]
    # one workbook: range in A1:A7, criterion in C1, =COUNTIF(A1:A7,C1) in E1; set_value(C1, …) between evaluations
    try:
        cells = {f'Sheet1!A{k + 1}': _py(t) for k, t in enumerate(SEQ_RANGE[2:])}
        cells['Sheet1!C1'] = _py(qs[0][1][1])
        cells['Sheet1!E1'] = '=COUNTIF(A1:A7,C1)'
        comp = pyc.compiler_from(cells)
    except Exception as exc:   # noqa
        return [core.canon_exc(exc)] * len(qs)
    outs = []
    for k, (fn, args) in enumerate(qs):
        try:
            if k:
                comp.set_value('Sheet1!C1', _py(args[1]))
            outs.append(core.enc(comp.evaluate('Sheet1!E1')))
        except Exception as exc:   # noqa
            outs.append(core.canon_exc(exc))
    return outs


def _seq_run_all():
    """every scenario in its own fresh interpreter, all started at once"""
    procs = []
    for i, (via, qs) in enumerate(SEQ):
        p = subprocess.Popen([sys.executable, '-c', _SEQ_SCRIPT], stdin=subprocess.PIPE, stdout=subprocess.PIPE,
                             stderr=subprocess.DEVNULL, text=True)
        p.stdin.write(json.dumps({'via': via, 'qs': qs}) + '\n')
        p.stdin.close()
        procs.append((i, p))
    for i, p in procs:
        line = p.stdout.readline()
        p.wait()
        try:
            _SEQ_OUT[i] = json.loads(line)
        except Exception:   # noqa
            _SEQ_OUT[i] = ['!seq-subprocess-failed'] * len(SEQ[i][1])


def seq_fresh(i):
    if i not in _SEQ_OUT:
        _seq_run_all()
    return _SEQ_OUT[i]


def seq_first(via, q):
    """what the call gives as the first call of a fresh process (from the scenarios that start with it)"""
    key = json.dumps(q)
    for i, (v, qs) in enumerate(SEQ):
        if v == via and json.dumps(qs[0]) == key:
            return seq_fresh(i)[0]
    return None


def _seq_impl(c):
    via, qs = SEQ[c['i']]
    return '|'.join(run_steps(via, qs) if c.get('p') else seq_fresh(c['i']))


def _show_tok(t):
    if t[:2] == 'f:':
        return repr(_py(t))
    if t[:2] == 'q:':
        return f'({t[2:]} by cell arithmetic = {_py(t)!r})'
    return core.show(t)


def _show_arg(a):
    if isinstance(a, list):
        return '{' + ';'.join(_show_tok(t) for t in a[2:]) + '}'
    return _show_tok(a)


def show_call(fn, args):
    return f'{XL[fn]}({", ".join(_show_arg(a) for a in args)})'


def raw_queries(c):
    k = c['k']
    if k == 'seq':
        return SEQ[c['i']][1]
    if k == 'call':
        return [(c['fn'], c['args'])]
    if k == 'partition':
        r, x = c['args']
        t = core.dec(x)
        return [('countif', [r, S('=' + t)]), ('countif', [r, S('<>' + t)])]
    if k == 'commute':
        fn, args = c['fn'], c['args']
        head = [] if fn == 'countifs' else [args[0]]
        rest = args[len(head):]
        pairs = [rest[i:i + 2] for i in range(0, len(rest), 2)]
        perm = [pairs[i] for i in c['perm']]
        return [(fn, args), (fn, head + [x for p in perm for x in p])]
    if k == 'ifs1':
        fn, args = c['fn'], c['args']
        ifs = IFS_OF[fn]
        if fn == 'countif':
            return [(fn, args), (ifs, args)]
        # a blank third argument is `None` = not given: the equivalent …IFS call aggregates the criteria range itself
        given = len(norm_query(c['via'], fn, args)[1]) > 2
        agg = args[2] if given else args[0]
        return [(fn, args), (ifs, [agg, args[0], args[1]])]
    if k == 'avg':
        args = c['args']
        return [('averageifs', args), ('sumifs', args), ('countifs', args[1:])]
    if k == 'refl':
        t = core.dec(c['s'])
        cell = rng(1, 1, [c['s']])
        qs = [('countif', [cell, c['s']]), ('countif', [cell, S('=' + t)]), ('countif', [cell, S('<>' + t)])]
        pat = _one_char_pattern(t)
        if pat is not None:
            qs.append(('countif', [cell, S(pat)]))
        return qs
    raise ValueError(k)


def _colname(i):
    s = ''
    i += 1
    while i:
        i, r = divmod(i - 1, 26)
        s = chr(65 + r) + s
    return s


def _literal(v):
    if isinstance(v, bool):
        return 'TRUE' if v else 'FALSE'
    if isinstance(v, (int, float)):
        return repr(v)
    if isinstance(v, str) and v in core.ERR_TAGS:
        return v
    if isinstance(v, str) and all(32 <= ord(ch) < 127 for ch in v):
        return '"' + v.replace('"', '""') + '"'
    return None


def build_formula(fn, args, lit):
    _, slots = pair_slots(fn, len(args))
    crit_idx = {ci for _, ci in slots}
    cells, parts = {}, []
    for i, a in enumerate(args):
        col0 = 4 * i
        if isinstance(a, list):
            r, c = a[0], a[1]
            for k, t in enumerate(a[2:]):
                cells[f'{_colname(col0 + k % c)}{k // c + 1}'] = _py(t)
            parts.append(f'{_colname(col0)}1:{_colname(col0 + c - 1)}{r}')
        elif a.startswith('q:'):
            x, _, y = a[2:].partition('/')
            cells[f'{_colname(col0)}1'], cells[f'{_colname(col0 + 1)}1'] = int(x), int(y)
            parts.append(f'{_colname(col0)}1/{_colname(col0 + 1)}1')
        else:
            v = _py(a)
            text = _literal(v) if (lit and i in crit_idx) else None
            if text is None:
                cells[f'{_colname(col0)}1'] = v
                text = f'{_colname(col0)}1'
            parts.append(text)
    return f'={XL[fn]}({",".join(parts)})', cells


_CTX = {}


def eval_cached(formula, cells):
    """pyc.eval_formula with the compiled formula and its eval context cached per formula text"""
    from pycel import excelformula, excelutil
    ent = _CTX.get(formula)
    if ent is None:
        holder = {}

        def strip(addr):
            return str(addr).split('!')[-1].replace('$', '')

        def evaluate(addr):
            return holder['cells'].get(strip(addr))

        def evaluate_range(addr):
            r = excelutil.AddressRange(strip(addr)) if isinstance(addr, str) else addr
            if isinstance(r, excelutil.AddressCell):
                return holder['cells'].get(strip(r.address))
            return tuple(tuple(holder['cells'].get(strip(x.address)) for x in row) for row in r.rows)

        ctx = excelformula.ExcelFormula.build_eval_context(evaluate, evaluate_range)
        ent = (ctx, excelformula.ExcelFormula(formula), holder)
        if len(_CTX) > 20000:
            _CTX.clear()
        _CTX[formula] = ent
    ctx, f, holder = ent
    holder['cells'] = cells
    try:
        return ctx(f)
    except Exception:
        _CTX.pop(formula, None)
        raise


def run_query(via, fn, args, lit):
    try:
        if via == 'l':
            out = pyc.lib_call(fn, *[_pyarg(a) for a in args])
        else:
            formula, cells = build_formula(fn, args, lit)
            out = eval_cached(formula, cells)
        return core.enc(out)
    except RecursionError as exc:
        return core.canon_exc(exc)
    except Exception as exc:   # noqa
        return core.canon_exc(exc)


def impl(c):
    if c['k'] == 'seq':
        return _seq_impl(c)
    if 'prelude' in c:      # a previous call in the same process; only the main call is compared
        fn, args = c['prelude']
        run_query(c['via'], fn, args, False)
    return '|'.join(run_query(c['via'], fn, args, c.get('lit', False)) for fn, args in raw_queries(c))


def _argtoks(a):
    if isinstance(a, list):
        return f'a:{a[0]}:{a[1]} ' + ' '.join(_mtok(t) for t in a[2:])
    return _mtok(a)


def query_line(via, fn, args):
    return f'c15 {via} {fn} ' + ' '.join(_argtoks(a) for a in args)


def model_lines(c):
    via = 'l' if c['via'] == 'wb' else c['via']
    return [query_line(via, fn, args) for fn, args in queries(c)]


def same(a, b):
    if a == b:
        return True
    if a is None or b is None:
        return False
    pa, pb = a.split('|'), b.split('|')
    return len(pa) == len(pb) and all(x == y or core.num_close(x, y) for x, y in zip(pa, pb))


# ---------------------------------------------------------------------------------------------------------------
# the property's satisfaction relation, restated in Python for the oracles (governed criteria only)

def split_crit(tok):
    """('num', op, value) | ('text', op, value) | None when the criterion is outside the governed grammar"""
    if tok[:2] in ('n:', 'f:', 'q:'):
        return 'num', '', _py(tok)
    if not tok.startswith('s:'):
        return None
    s = core.dec(tok)
    if '\n' in s or '\r' in s:
        return None
    if _is_num_text(s):
        return 'num', '', _num_of_text(s)
    if _floats(s):
        return None
    m = OPER_RE.fullmatch(s)
    op, value = m.group(1) or '', m.group(2)
    if _is_num_text(value):
        return 'num', op, _num_of_text(value)
    if _floats(value):
        return None
    if op in ('<', '<=', '>', '>=') and value == '':
        return None
    return 'text', op, value


def _num_of_text(s):
    """coerce_to_number on numeric text: int() when there is no '.', and it reads, else float() — exact, never through
    a float for integers (10**17+1 must stay distinct from 10**17)"""
    if '.' not in s:
        try:
            return int(s)
        except ValueError:
            pass
    return float(s)


def _is_num_text(s):
    return EXCEL_NUM_TEXT.fullmatch(s) is not None and abs(float(s)) != float('inf')


def _floats(s):
    try:
        float(s)
        return True
    except ValueError:
        return False


def _cmp(op, a, b):
    return {'': a == b, '=': a == b, '<>': a != b, '<': a < b, '<=': a <= b, '>': a > b, '>=': a >= b}[op]


def wild_match(pat, text):
    """declarative wildcard semantics: ~x literal x, ? one character, * any sequence (memoised recursion)"""
    toks = []
    i = 0
    while i < len(pat):
        ch = pat[i]
        if ch == '~':
            if i + 1 < len(pat):
                toks.append(('lit', pat[i + 1]))
                i += 2
                continue
            toks.append(('lit', '~'))
        elif ch == '?':
            toks.append(('one', None))
        elif ch == '*':
            toks.append(('star', None))
        else:
            toks.append(('lit', ch))
        i += 1
    memo = {}

    def go(i, j):
        key = (i, j)
        if key in memo:
            return memo[key]
        if i == len(toks):
            res = j == len(text)
        elif toks[i][0] == 'star':
            res = go(i + 1, j) or (j < len(text) and go(i, j + 1))
        elif j < len(text) and (toks[i][0] == 'one' or toks[i][1] == text[j]):
            res = go(i + 1, j + 1)
        else:
            res = False
        memo[key] = res
        return res
    return go(0, 0)


def sat_py(crit, cell_tok):
    kind, op, value = crit
    x = _py(cell_tok)
    if kind == 'num':
        if isinstance(x, (int, float)) and not isinstance(x, bool):
            return _cmp(op, x, value)
        return op == '<>'
    v = value.lower()
    if isinstance(x, str):
        if op in ('', '=', '<>'):
            return wild_match(v, x.lower()) != (op == '<>')
        return _cmp(op, x.lower(), v)
    if x is None:
        if op in ('', '=', '<>'):
            return (v == '') != (op == '<>')
        return v == ''
    return op == '<>'


def expected(fn, args):
    """the property's answer for one query when it decides it completely, else None"""
    agg_i, slots = pair_slots(fn, len(args))
    rngs = [args[r] if isinstance(args[r], list) else [1, 1, args[r]] for r, _ in slots]
    crits = [split_crit(args[ci]) if isinstance(args[ci], str) else None for _, ci in slots]
    if any(cr is None for cr in crits):
        return None
    shape = (rngs[0][0], rngs[0][1])
    agg = None
    if fn not in ('countif', 'countifs'):
        agg = args[agg_i] if agg_i is not None else args[0]
        if not isinstance(agg, list):
            agg = [1, 1, agg]
    if any((r[0], r[1]) != shape for r in rngs) or (agg is not None and (agg[0], agg[1]) != shape):
        return 'e:value'
    n = shape[0] * shape[1]
    sel = [k for k in range(n) if all(sat_py(cr, r[2 + k]) for cr, r in zip(crits, rngs))]
    if agg is None:
        return f'n:{len(sel)}/1'
    vals = [_py(agg[2 + k]) for k in sel]
    if not all(isinstance(v, (int, float)) and not isinstance(v, bool) for v in vals):
        errs = [v for v in vals if isinstance(v, str) and v in core.ERR_TAGS]
        return ('any-error' if errs else None)
    from fractions import Fraction
    fr = [Fraction(v) for v in vals]
    if fn in ('sumif', 'sumifs'):
        return core.enc(sum(fr, Fraction(0)))
    if fn in ('averageif', 'averageifs'):
        return core.enc(sum(fr) / len(fr)) if fr else 'e:div0'
    if fn == 'maxifs':
        return core.enc(max(fr)) if fr else 'n:0/1'
    return core.enc(min(fr)) if fr else 'n:0/1'


def governed(c):
    for fn, args in queries(c):
        _, slots = pair_slots(fn, len(args))
        for _, ci in slots:
            if not isinstance(args[ci], str) or split_crit(args[ci]) is None:
                return False
    return True


# ---------------------------------------------------------------------------------------------------------------
# oracles

def _is_value(tok):
    return tok.startswith('n:') or tok.startswith('e:')


def oracles(results):
    for c, text in _oracles(results):
        if 'prelude' in c:
            text += f' [previous call in the same process: {show_call(*c["prelude"])}]'
        yield c, text


def _oracles(results):
    precompute_findings(results)
    for r in results:
        c = r.case
        if r.impl is None:
            continue
        outs = r.impl.split('|')
        qs = queries(c)
        if c['k'] == 'seq':
            # a call's answer does not depend on what was evaluated before it
            via, steps = SEQ[c['i']]
            bad = None
            for k, (q, o) in enumerate(zip(steps, outs)):
                first = seq_first(via, q)
                if first is not None and o != first:
                    bad = k
                    break
            if bad is not None:
                where = 'inside the checking process' if c.get('p') else 'in a fresh process'
                before = '; '.join(show_call(*q) for q in steps[:bad]) or '(earlier cases of this run)'
                yield c, (f'{where} (via {via}), after {before} the call {show_call(*steps[bad])} gives '
                          f'{core.show(outs[bad])}; as the first call of a fresh process it gives {core.show(first)}')
                continue
        if c['k'] == 'refl':
            # a cell EQUAL to the criterion string satisfies s and "=s", not "<>s", and s with one character as `?`
            want = ['n:1/1', 'n:1/1', 'n:0/1', 'n:1/1'][:len(outs)]
            if outs != want:
                t = core.dec(c['s'])
                names = [repr(t), repr('=' + t), repr('<>' + t), repr(_one_char_pattern(t))]
                k = next(i for i, (o, w) in enumerate(zip(outs, want)) if o != w)
                yield c, (f'a cell holding {t!r} counted by COUNTIF with criterion {names[k]}: {core.show(outs[k])}, '
                          f'expected {core.show(want[k])} (the cell IS the criterion string)')
            continue
        if not governed(c):
            continue
        # never fails: a number or an Excel error value (MAXIFS/MINIFS may hand back a logical of the range)
        for (fn, args), o in zip(qs, outs):
            if not (_is_value(o) or (fn in ('maxifs', 'minifs') and o.startswith('b:'))):
                yield c, f'{XL[fn]} failed or returned a non-Excel value: {o}'
                break
        else:
            # selects exactly the satisfying positions
            for (fn, args), o in zip(qs, outs):
                e = expected(fn, args)
                if e is None:
                    continue
                if e == 'any-error':
                    if not o.startswith('e:'):
                        yield c, f'{XL[fn]} with an error value among the selected cells gave {core.show(o)}'
                        break
                elif not (o == e or core.num_close(o, e)):
                    yield c, f'{XL[fn]} gave {core.show(o)}, the satisfying positions give {core.show(e)}'
                    break
            else:
                k = c['k']
                if k == 'partition':
                    r_ = c['args'][0]
                    n = r_[0] * r_[1] if isinstance(r_, list) else 1
                    if all(o.startswith('n:') for o in outs) and sum(core.dec(o) for o in outs) != n:
                        yield c, f'"=x" counts {core.show(outs[0])} and "<>x" counts {core.show(outs[1])} of {n} cells'
                elif k in ('commute', 'ifs1') and not same(outs[0], outs[1]):
                    yield c, f'{k}: {core.show(outs[0])} vs {core.show(outs[1])}'
                elif k == 'avg' and all(o.startswith('n:') for o in outs[1:]):
                    s, n = core.dec(outs[1]), core.dec(outs[2])
                    e = 'e:div0' if n == 0 else core.enc(s / n)
                    if not (outs[0] == e or core.num_close(outs[0], e)):
                        yield c, f'AVERAGEIFS {core.show(outs[0])} ≠ SUMIFS/COUNTIFS {core.show(e)}'


# ---------------------------------------------------------------------------------------------------------------
# known finding: numeric TEXT in a criteria range satisfies a numeric "=" criterion (pinned by the test-suite)

def _numtext_rewrite(fn, args):
    """the query with every numeric-text cell that the code reads as the number of its "= number" criterion replaced
    by that number (aggregated range kept as it was); None when nothing changes"""
    agg_i, slots = pair_slots(fn, len(args))
    new = [list(a) if isinstance(a, list) else a for a in args]
    changed = False
    for ri, ci in slots:
        cr = split_crit(args[ci]) if isinstance(args[ci], str) else None
        if cr is None or cr[0] != 'num' or cr[1] not in ('', '='):
            continue
        a = new[ri] if isinstance(new[ri], list) else [1, 1, new[ri]]
        for k in range(2, len(a)):
            if a[k].startswith('s:'):
                t = core.dec(a[k])
                if _is_num_text(t) and _num_of_text(t) == cr[2]:
                    a[k] = core.enc(cr[2] if cr[2] != int(cr[2]) else int(cr[2]))
                    changed = True
        new[ri] = a if isinstance(new[ri], list) else a[2]
    if not changed:
        return None
    if fn in ('sumif', 'averageif') and agg_i is None:
        new = new + [args[0]]
    return fn, new


_FK = {}


def _ckey(c):
    import json
    return json.dumps(c, sort_keys=True)


def _fk_lines(c):
    qs = queries(c)
    rew = [_numtext_rewrite(fn, args) for fn, args in qs]
    if all(r is None for r in rew):
        return None
    return [query_line(c['via'], fn, args) for fn, args in [r or q for r, q in zip(rew, qs)]]


def precompute_findings(results):
    """one driver batch for every disagreeing case the rewrite applies to (a driver start per case is too slow)"""
    todo, lines = [], []
    for r in results:
        if r.impl is None or r.model is None or same(r.impl, r.model) or _ckey(r.case) in _FK:
            continue
        ls = _fk_lines(r.case)
        if ls is None:
            _FK[_ckey(r.case)] = None
            continue
        todo.append((r, len(lines), len(ls)))
        lines.extend(ls)
    if not lines:
        return
    try:
        outs = core.run_driver(ID, lines)
    except Exception:   # noqa
        return
    for r, a, n in todo:
        _FK[_ckey(r.case)] = 'numeric-text-equals-number' if same(r.impl, '|'.join(outs[a:a + n])) else None


def finding_key(c, impl_out, model_out):
    if impl_out is None or model_out is None or same(impl_out, model_out):
        return None
    k = _ckey(c)
    if k in _FK:
        return _FK[k]
    ls = _fk_lines(c)
    if ls is None:
        return None
    try:
        outs = core.run_driver(ID, ls)
    except Exception:   # noqa
        return None
    _FK[k] = 'numeric-text-equals-number' if same(impl_out, '|'.join(outs)) else None
    return _FK[k]


# ---------------------------------------------------------------------------------------------------------------
# coverage

def _kinds(a):
    toks = a[2:] if isinstance(a, list) else [a]
    return {t[0] for t in toks}


def nontrivial(c):
    if c.get('core') or c.get('near') or c.get('exotic') or c.get('single') or c.get('uni') or c['k'] == 'seq' or 'prelude' in c:
        return True
    for fn, args in queries(c)[:1]:
        _, slots = pair_slots(fn, len(args))
        for ri, _ in slots:
            a = args[ri]
            if isinstance(a, list) and len(a) > 3 and len(_kinds(a)) >= 2:
                return True
    return False


def bucket(c):
    if c['k'] == 'seq':
        return 'seq'
    if 'prelude' in c:
        return 'prelude'
    if c.get('near'):
        return 'near'
    if c.get('exotic'):
        return 'exotic'
    if c.get('single'):
        return 'single'
    if c.get('uni'):
        return 'unicode'
    if c.get('core'):
        return 'core:' + c['core']
    if c.get('mal'):
        return 'malformed:' + c['mal']
    if c['k'] == 'call':
        return 'call:' + c['fn']
    return c['k']


# ---------------------------------------------------------------------------------------------------------------
# generator

def _fill(rng_, n, style):
    nums = [_tok(v) for v in NUM_CELLS + [0.5, -1.25, 7, 4]]
    texts = [S(t) for t in TEXT_CELLS]
    if style == 'exotic':
        ex = [S(t) for t in EXOTIC_CELLS] + ['n:10/1', 'n:1/1', 'b:1', 'z']
        return [rng_.choice(ex) for _ in range(n)]
    if style == 'near':
        near = [_tok(v) for v in NEAR]
        return [rng_.choice(near) for _ in range(n)]
    if style == 'numbers':
        return [rng_.choice(nums) for _ in range(n)]
    if style == 'text':
        return [rng_.choice(texts) for _ in range(n)]
    if style == 'noerr':
        pool = nums + texts + ['b:1', 'b:0', 'z']
        return [rng_.choice(pool) for _ in range(n)]
    return [rng_.choice(POOL) for _ in range(n)]


def _rand_crit(rng_):
    u = rng_.random()
    if u < 0.7:
        return rng_.choice(CRIT_TOKS)
    if u < 0.78:
        return S(rng_.choice(OPS) + repr(rng_.choice(NEAR)))
    if u < 0.8:
        return S(rng_.choice(OPS) + rng_.choice(('10', '1e1', '10.0', '1')))
    # compose: op + (number | pool text | wildcard built from a pool text)
    op = rng_.choice(OPS)
    v = rng_.random()
    if v < 0.35:
        return S(op + repr(rng_.choice(NUM_CELLS + [0.5, 7, 4])))
    t = rng_.choice(TEXT_CELLS)
    if v < 0.7 and t:
        k = rng_.randrange(len(t))
        t = t[:k] + rng_.choice('?*') + t[k + rng_.choice((0, 1)):]
    tok = S(op + t)
    return tok if split_crit(tok) is not None else rng_.choice(CRIT_TOKS)


def _via(rng_):
    u = rng_.random()
    if u < 0.4:
        return {'via': 'l'}
    return {'via': 'f', 'lit': u < 0.6}


def _rand_call(rng_, fn=None, mal=None):
    fn = fn or rng_.choice(FNS)
    r, c = rng_.randint(1, 5), rng_.randint(1, 3)
    n = r * c
    npairs = 1 if fn in ('countif', 'sumif', 'averageif') else rng_.randint(1, 3)
    style = rng_.choice(('mixed', 'mixed', 'numbers', 'text', 'noerr', 'near', 'exotic'))
    pairs = []
    for _ in range(npairs):
        pairs += [rng(r, c, _fill(rng_, n, style)), _rand_crit(rng_)]
    agg_style = rng_.choice(('numbers', 'numbers', 'noerr', 'mixed'))
    agg = rng(r, c, _fill(rng_, n, agg_style))
    if mal == 'size':
        r2, c2 = rng_.choice([(r + 1, c), (r, c + 1), (c, r) if r != c else (r + 1, c + 1), (1, 1)])
        if (r2, c2) == (r, c):
            r2 += 1
        bad = rng(r2, c2, _fill(rng_, r2 * c2, style))
        if fn in ('countif',):
            fn = 'countifs'
        if fn == 'countifs':
            pairs = pairs[:2] + [bad, _rand_crit(rng_)] + pairs[2:]
        elif rng_.random() < 0.5 or fn in ('sumif', 'averageif'):
            agg = bad
        else:
            pairs = pairs[:2] + [bad, _rand_crit(rng_)]
    if mal == 'criteria':
        k = rng_.randrange(npairs)
        pairs[2 * k + 1] = rng_.choice(UNGOVERNED_CRIT)
    if mal == 'scalar':
        pairs = [rng_.choice(POOL), pairs[1]]
        agg = rng_.choice(POOL)
        if fn in ('countifs', 'sumifs', 'averageifs', 'maxifs', 'minifs'):
            pairs = pairs[:2]
    if fn in ('countif', 'countifs'):
        args = pairs
    elif fn in ('sumif', 'averageif'):
        args = pairs + ([agg] if rng_.random() < 0.7 or mal == 'size' else [])
    else:
        args = [agg] + pairs
    out = {'k': 'call', 'fn': fn, 'args': args}
    out.update(_via(rng_))
    if mal:
        out['mal'] = 'criteria' if mal == 'criteria' else 'size' if mal == 'size' else 'scalar'
    return out


def cases(tier, rng_):
    thorough = tier == 'thorough'
    # ---- deterministic core 1: every criterion x every pool cell, one-cell COUNTIF (lib and formula)
    for cls, crit in CRITS:
        for cell in POOL:
            yield {'k': 'call', 'fn': 'countif', 'args': [rng(1, 1, [cell]), crit], 'via': 'l', 'core': cls}
            yield {'k': 'call', 'fn': 'countif', 'args': [cell, crit], 'via': 'f', 'lit': False, 'core': cls}
    # ---- sequences in fresh processes (statelessness), and the same typed-equal pairs adjacent in THIS process, in
    #      both orders, over a range holding numbers, logicals, numeric text, empty text and a blank
    for i in range(len(SEQ)):
        yield {'k': 'seq', 'i': i, 'via': SEQ[i][0]}
        yield {'k': 'seq', 'i': i, 'via': SEQ[i][0], 'p': 1}
    for a, b in SEQ_PAIRS:
        for via in ({'via': 'l'}, {'via': 'f', 'lit': False}):
            for fn in ('countif', 'countifs'):
                yield {'k': 'call', 'fn': fn, 'args': [SEQ_RANGE, b], 'prelude': [fn, [SEQ_RANGE, a]], **via}
            yield {'k': 'call', 'fn': 'sumifs', 'args': [SEQ_VALS, SEQ_RANGE, b],
                   'prelude': ['maxifs', [SEQ_VALS, SEQ_RANGE, a]], **via}
    # ---- non-ASCII text: reflexivity for every string; ranges over the strings whose lowering the model shares
    for t in UNI:
        for via in ({'via': 'l'}, {'via': 'f', 'lit': False}):
            yield {'k': 'refl', 's': S(t), 'uni': 1, **via}
    ucol = rng(len(UNI_AGREE), 1, [S(t) for t in UNI_AGREE])
    uvals = rng(len(UNI_AGREE), 1, [f'n:{2 ** k}/1' for k in range(len(UNI_AGREE))])
    for t in UNI_AGREE:
        pat = _one_char_pattern(t)
        for via in ({'via': 'l'}, {'via': 'f', 'lit': False}):
            yield {'k': 'partition', 'args': [ucol, S(t)], 'uni': 1, **via}
            for crit in [S(t), S('<>' + t)] + ([S(pat), S('<>' + pat)] if pat else []):
                yield {'k': 'call', 'fn': 'countif', 'args': [ucol, crit], 'uni': 1, **via}
                yield {'k': 'call', 'fn': 'sumifs', 'args': [uvals, ucol, crit], 'uni': 1, **via}
        yield {'k': 'ifs1', 'fn': 'countif', 'args': [ucol, S(t)], 'via': 'l', 'uni': 1}
    # ---- single-cell ranges: a one-cell range reaches the functions as a SCALAR; every falsy / odd value as the
    #      aggregated cell (0, 0.0, FALSE, "", blank, an error value, text) with criteria it is and is not selected by
    for a in ('n:3/1', 'n:0/1', S('a'), 'b:1', 'z'):
        for crit in (S('>0'), S('<>x'), S('a'), S('=3'), S(''), 'n:0/1'):
            for sc in ('n:0/1', 'f:0/1', 'b:0', 'b:1', S(''), 'z', 'n:5/1', 'e:na', S('txt')):
                for via in ({'via': 'l'}, {'via': 'f', 'lit': False}):
                    yield {'k': 'call', 'fn': 'sumif', 'args': [a, crit, sc], 'single': 1, **via}
                    yield {'k': 'ifs1', 'fn': 'averageif', 'args': [a, crit, sc], 'single': 1, **via}
                    yield {'k': 'ifs1', 'fn': 'sumif', 'args': [rng(1, 1, [a]), crit, rng(1, 1, [sc])], 'single': 1,
                           **via}
                yield {'k': 'call', 'fn': 'maxifs', 'args': [sc, a, crit], 'via': 'l', 'single': 1}
                yield {'k': 'call', 'fn': 'minifs', 'args': [sc, a, crit], 'via': 'f', 'lit': False, 'single': 1}
    # ---- text cells that Python reads as a number but Excel does not (and Excel-numeric spellings), in criteria
    #      ranges against numeric criteria: one-cell COUNTIF, the partition pair, all consumers over the column
    ex_toks = [S(t) for t in EXOTIC_CELLS] + ['n:10/1', 'f:10/1', 'n:1/1', 'b:1']
    ne = len(ex_toks)
    excol = rng(ne, 1, ex_toks)
    exvals = rng(ne, 1, [f'n:{2 ** k}/1' for k in range(ne)])
    ex_crits = ['n:10/1', 'f:10/1', S('10'), S('=10'), S('<>10'), S('>9'), S('<11'), S('>=10'), S('<=10'), S('10.0'),
                S('=1e1'), S(' 10 '), 'n:10000000000/1', S('=1e10'), S('<>1e10'), 'n:0/1', S('=0'), S('<>0')]
    for crit in ex_crits:
        for cell in ex_toks:
            yield {'k': 'call', 'fn': 'countif', 'args': [rng(1, 1, [cell]), crit], 'via': 'l', 'exotic': 1}
            yield {'k': 'call', 'fn': 'countif', 'args': [cell, crit], 'via': 'f', 'lit': False, 'exotic': 1}
        yield {'k': 'call', 'fn': 'countifs', 'args': [excol, crit], 'via': 'l', 'exotic': 1}
        yield {'k': 'call', 'fn': 'countif', 'args': [excol, crit], 'via': 'f', 'lit': False, 'exotic': 1}
        yield {'k': 'call', 'fn': 'sumif', 'args': [excol, crit, exvals], 'via': 'l', 'exotic': 1}
        yield {'k': 'call', 'fn': 'sumifs', 'args': [exvals, excol, crit], 'via': 'f', 'lit': False, 'exotic': 1}
        yield {'k': 'call', 'fn': 'averageifs', 'args': [exvals, excol, crit], 'via': 'l', 'exotic': 1}
        yield {'k': 'call', 'fn': 'maxifs', 'args': [exvals, excol, crit], 'via': 'l', 'exotic': 1}
        yield {'k': 'call', 'fn': 'minifs', 'args': [exvals, excol, crit], 'via': 'l', 'exotic': 1}
    for x in ('10', '1e1', '1e10', '0', '10.0'):
        yield {'k': 'partition', 'args': [excol, S(x)], 'via': 'l', 'exotic': 1}
        yield {'k': 'partition', 'args': [excol, S(x)], 'via': 'f', 'lit': False, 'exotic': 1}
    # ---- near-equal numbers: every near value as criterion (number, text, op + text) x every near cell, the
    #      partition pair and the ...IFS consumers over the whole near column
    near_toks = [_tok(v) for v in NEAR]
    nn = len(NEAR)
    nearcol = rng(nn, 1, near_toks)
    dycol = rng(nn, 1, [f'n:{2 ** k}/1' for k in range(nn)])
    for v in NEAR:
        crits = [_tok(v)] + [S(op + repr(v)) for op in OPS]
        for crit in crits:
            for cell in near_toks:
                yield {'k': 'call', 'fn': 'countif', 'args': [rng(1, 1, [cell]), crit], 'via': 'l', 'near': 1}
                yield {'k': 'call', 'fn': 'countif', 'args': [cell, crit], 'via': 'f', 'lit': False, 'near': 1}
            yield {'k': 'call', 'fn': 'countifs', 'args': [nearcol, crit], 'via': 'l', 'near': 1}
            yield {'k': 'call', 'fn': 'sumifs', 'args': [dycol, nearcol, crit], 'via': 'f', 'lit': False, 'near': 1}
            yield {'k': 'call', 'fn': 'sumif', 'args': [nearcol, crit, dycol], 'via': 'l', 'near': 1}
            yield {'k': 'call', 'fn': 'maxifs', 'args': [dycol, nearcol, crit], 'via': 'l', 'near': 1}
        for via in ({'via': 'l'}, {'via': 'f', 'lit': True}):
            yield {'k': 'partition', 'args': [nearcol, S(repr(v))], 'near': 1, **via}
        yield {'k': 'commute', 'fn': 'countifs', 'args': [nearcol, S('>=' + repr(v)), nearcol, S('<=' + repr(v))],
               'perm': [1, 0], 'via': 'l', 'near': 1}
        yield {'k': 'commute', 'fn': 'countifs', 'args': [nearcol, S('>=' + repr(v)), nearcol, S('<=' + repr(v))],
               'perm': [1, 0, 1], 'via': 'l', 'near': 1}
        for fn in ('sumifs', 'averageifs', 'maxifs', 'minifs'):
            yield {'k': 'commute', 'fn': fn, 'args': [dycol, nearcol, S('>=' + repr(v))], 'perm': [0, 0],
                   'via': 'f', 'lit': False, 'near': 1}
    # ---- deterministic core 2: every criterion over the whole pool as a column, all eight functions
    n = len(POOL)
    col = rng(n, 1, POOL)
    numcol = rng(n, 1, [_tok(v) for v in ([1, 2, 4, 8, 0.5, -16, 32, 64] * n)[:n]])
    for cls, crit in CRITS:
        lit = {'via': 'f', 'lit': True}
        yield {'k': 'call', 'fn': 'countif', 'args': [col, crit], **lit}
        yield {'k': 'call', 'fn': 'countifs', 'args': [col, crit], 'via': 'l'}
        yield {'k': 'call', 'fn': 'sumif', 'args': [col, crit], 'via': 'l'}
        yield {'k': 'call', 'fn': 'sumif', 'args': [col, crit, numcol], **lit}
        yield {'k': 'call', 'fn': 'sumifs', 'args': [numcol, col, crit], 'via': 'l'}
        yield {'k': 'call', 'fn': 'averageif', 'args': [col, crit, numcol], 'via': 'l'}
        yield {'k': 'call', 'fn': 'averageifs', 'args': [numcol, col, crit], **lit}
        yield {'k': 'call', 'fn': 'maxifs', 'args': [numcol, col, crit], 'via': 'l'}
        yield {'k': 'call', 'fn': 'minifs', 'args': [numcol, col, crit], 'via': 'l'}
        yield {'k': 'ifs1', 'fn': 'countif', 'args': [col, crit], 'via': 'l'}
        yield {'k': 'ifs1', 'fn': 'averageif', 'args': [col, crit, numcol], 'via': 'l'}
    # ---- partition for every criteria text without operator
    values = [repr(v) for v in NUM_CRIT] + TEXT_CRIT + WILD_CRIT + ['', '=', '<', '<>3', '=a']
    for x in values:
        yield {'k': 'partition', 'args': [col, S(x)], 'via': 'l'}
        yield {'k': 'partition', 'args': [col, S(x)], 'via': 'f', 'lit': True}
    # ---- deterministic recon witnesses live in corpus/C15; deterministic malformed cases
    a3 = rng(3, 1, ['n:1/1', 'n:2/1', 'n:3/1'])
    a2 = rng(2, 1, ['n:1/1', 'n:2/1'])
    for via in ({'via': 'l'}, {'via': 'f', 'lit': False}):
        yield {'k': 'call', 'fn': 'countifs', 'args': [a3, 'n:1/1', a2, 'n:1/1'], 'mal': 'size', **via}
        yield {'k': 'call', 'fn': 'sumif', 'args': [a3, S('>0'), a2], 'mal': 'size', **via}
        yield {'k': 'call', 'fn': 'sumifs', 'args': [a2, a3, S('>0')], 'mal': 'size', **via}
        yield {'k': 'call', 'fn': 'averageifs', 'args': [a3, a3, S('>0'), a2, S('>0')], 'mal': 'size', **via}
        yield {'k': 'call', 'fn': 'maxifs', 'args': [a3, a2, S('>0')], 'mal': 'size', **via}
        for crit in UNGOVERNED_CRIT:
            for fn in FNS:
                args = [col, crit] if fn in ('countif', 'countifs', 'sumif', 'averageif') else [numcol, col, crit]
                yield {'k': 'call', 'fn': fn, 'args': args, 'mal': 'criteria', **via}
    # ---- every ordered pair of pool cells x every criterion (thorough), as a 2-cell COUNTIF / SUMIF
    if thorough:
        for cls, crit in CRITS:
            for x, y in itertools.product(POOL, repeat=2):
                yield {'k': 'call', 'fn': 'countif', 'args': [rng(1, 2, [x, y]), crit], 'via': 'l'}
        for cls, crit in CRITS[::3]:
            for x, y in itertools.product(POOL, repeat=2):
                yield {'k': 'call', 'fn': 'sumif', 'args': [rng(2, 1, [x, y]), crit], 'via': 'l'}
    # ---- random
    nrand = 150000 if thorough else 5000
    for i in range(nrand):
        u = rng_.random()
        if u < 0.55:
            yield _rand_call(rng_)
        elif u < 0.63:
            r, c = rng_.randint(1, 5), rng_.randint(1, 3)
            x = core.dec(_rand_crit(rng_))
            x = x if isinstance(x, str) else repr(int(x) if x == int(x) else float(x))
            yield {'k': 'partition', 'args': [rng(r, c, _fill(rng_, r * c, 'mixed')), S(x)], **_via(rng_)}
        elif u < 0.75:
            base = _rand_call(rng_, rng_.choice(('countifs', 'sumifs', 'averageifs', 'maxifs', 'minifs')))
            npairs = (len(base['args']) - (0 if base['fn'] == 'countifs' else 1)) // 2
            perm = list(range(npairs))
            rng_.shuffle(perm)
            if rng_.random() < 0.4:     # a pair stated twice (C15_duplicate_pair): same selection
                perm.insert(rng_.randrange(len(perm) + 1), rng_.choice(perm))
            yield {'k': 'commute', 'fn': base['fn'], 'args': base['args'], 'perm': perm, 'via': base['via'],
                   'lit': base.get('lit', False)}
        elif u < 0.83:
            base = _rand_call(rng_, rng_.choice(('countif', 'sumif', 'averageif')))
            yield {'k': 'ifs1', 'fn': base['fn'], 'args': base['args'], 'via': base['via'],
                   'lit': base.get('lit', False)}
        elif u < 0.91:
            base = _rand_call(rng_, 'averageifs')
            a = base['args']
            a[0] = rng(a[0][0], a[0][1], _fill(rng_, a[0][0] * a[0][1], 'numbers'))
            yield {'k': 'avg', 'args': a, 'via': base['via'], 'lit': base.get('lit', False)}
        else:
            yield _rand_call(rng_, mal=rng_.choice(('size', 'criteria', 'scalar')))

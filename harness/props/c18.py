"""C18 — radix conversions (engineering.py:25-92).  DESIGN.md §7 C18."""
import itertools

from harness import core, pyc

ID = 'C18'
LEAN_MODULE = 'Pycel.Props.C18'
NS = 'Pycel.Radix.'
THEOREMS = [NS + t for t in (
    'mask_spec', 'mask_ranges', 'C18_roundtrip', 'C18_twos_complement', 'C18_compose', 'C18_places',
    'C18_places_length', 'C18_reject_range', 'C18_reject_alphabet', 'C18_reject_length', 'C18_reject_kinds',
    'C18_total_kinds', 'C18_injective', 'C18_output_alphabet', 'C18_decode_in_range', 'C18_roundtrip_text',
    'C18_places_roundtrip', 'C18_base2base_value', 'InRange_widen')]
DESIGN_REF = 'DESIGN.md §7 C18'
RULE = ('ops b2d/d2b/b2b on scalar arguments. quick: every integer -513..512 through DEC2BIN (+ every places 1..10 on '
        'every 8th), boundary and sampled integers for octal/hex, digit strings up to 11 chars over each alphabet, '
        'each with one illegal character inserted, non-integer/logical/blank/error operands, base-to-base on the same '
        'strings. A case is non-trivial when its operand is a number or a non-empty text (not an error/blank/logical '
        'pass-through); distinct = distinct (op, bases, operand, places).')
ASSUMPTIONS = [
    'scalar arguments only (ranges reaching these functions are flattened by the code and must hold one cell)',
    'CPython int()/bin()/oct()/hex() are modelled by hand (pyInt10?, render) and validated only by this differential run',
    'numbers are sent as exact rationals; floats of magnitude > 2^53 are not generated',
]
TRUSTED = ['modelled, not verified: Python int(str), bin/oct/hex, str.zfill, flatten()']
REQUIRED_BUCKETS = ['b2d', 'd2b', 'b2b', 'b2d:illegal', 'd2b:places', 'd2b:negative', 'd2b:out-of-range']
EXHAUSTIVE = False

BASES = (2, 8, 16)
FN_B2D = {2: 'bin2dec', 8: 'oct2dec', 16: 'hex2dec'}
FN_D2B = {2: 'dec2bin', 8: 'dec2oct', 16: 'dec2hex'}
FN_B2B = {(2, 8): 'bin2oct', (2, 16): 'bin2hex', (8, 2): 'oct2bin', (8, 16): 'oct2hex', (16, 2): 'hex2bin',
          (16, 8): 'hex2oct'}
ALPHA = {2: '01', 8: '01234567', 16: '0123456789ABCDEFabcdef'}
ILLEGAL = [' ', '_', '+', '-', '2', '8', 'g', 'G', '.', 'x', 'b', 'o', '١', '\n', 'z',
           '\ufb00', '\ufb01', 'ſ', 'ı', 'İ', 'Ａ', 'ａ', '１', 'Ⅰ', 'ß', '\u00b2', '\u0660', '\u2160', 'ǅ']   # case-mapping / digit look-alikes
MASK = {2: 512, 8: 0x20000000, 16: 0x8000000000}


def _val(tok):
    return core.dec(tok)


def _py(tok):
    """protocol token -> python value handed to pycel (numbers as int when integral, else float)"""
    v = core.dec(tok)
    from fractions import Fraction
    if isinstance(v, Fraction):
        return int(v) if v.denominator == 1 and tok.endswith('/1') and not tok.startswith('n:f') else float(v)
    return v


def case(op, val, places=None, b=None, bi=None, bo=None, fl=False):
    c = {'op': op, 'val': val}
    if places is not None:
        c['places'] = places
    if b is not None:
        c['b'] = b
    if bi is not None:
        c['bi'], c['bo'] = bi, bo
    if fl:
        c['float'] = True      # send an integral number as a Python float
    return c


def cases(tier, rng):
    thorough = tier == 'thorough'
    n_ = lambda i: f'n:{i}/1'    # noqa
    s_ = core.enc_text
    # --- DEC2x: exhaustive binary range (+ just outside), boundaries and samples for octal / hex
    for i in range(-514, 515):
        yield case('d2b', n_(i), b=2)
        if i % 8 == 0 or thorough:
            for p in range(1, 11):
                yield case('d2b', n_(i), places=n_(p), b=2)
    for b in (8, 16):
        m = MASK[b]
        pts = {0, 1, -1, 7, 8, 15, 16, 255, 256, -255, -256, m - 1, m, m + 1, -m, -m - 1, -m + 1, m // 2, -m // 2}
        for _ in range(3000 if thorough else 300):
            pts.add(rng.randint(-m - 5, m + 5))
            pts.add(rng.randint(-5000, 5000))
        for i in sorted(pts):
            yield case('d2b', n_(i), b=b)
            yield case('d2b', n_(i), places=n_(rng.randint(0, 11)), b=b)
    # operand kinds and places kinds
    odd_vals = ['z', 's:', 'b:1', 'b:0', 'n:7/2', 'n:-7/2', 'n:1/2', 'n:-1/2', s_('12'), s_(' 12 '), s_('1_0'),
                s_('+5'), s_('-5'), s_('1.5'), s_('abc'), s_('1e2'), s_('_1'), s_('1__0'), s_('1_'),
                s_('Infinity'), s_('-inf'), s_('inf'), s_('nan'), s_('1e400'), s_('-1e400'), s_('1e-400'), s_('0x10')] + \
               ['e:' + t for t in core.TAG_ERRS]
    odd_places = [None, 'z', 'b:1', 'b:0', 'n:5/2', 'n:-1/1', 'n:0/1', 'n:10/1', 'n:11/1', s_('4'), s_('a'), s_(''),
                  'e:na', 'e:div0']
    for b in BASES:
        for v in odd_vals:
            for p in odd_places:
                yield case('d2b', v, places=p, b=b)
        for v in ('n:5/1', 'n:-5/1', 'n:255/1'):
            for p in odd_places:
                yield case('d2b', v, places=p, b=b)
            yield case('d2b', v, b=b, fl=True)
    # --- x2DEC: digit strings
    for b in BASES:
        al = ALPHA[b]
        strs = {'0', '1', al[-1] * 10, al[-1] * 9, al[1] + al[0] * 9, al[0] * 10, al[0] * 11, al[1] * 11, al[-1] * 11}
        if b == 2:
            for n in range(1, 6 if not thorough else 9):
                for t in itertools.product(al, repeat=n):
                    strs.add(''.join(t))
        for _ in range(4000 if thorough else 500):
            strs.add(''.join(rng.choice(al) for _ in range(rng.randint(1, 11))))
        strs = sorted(strs)
        for s in strs:
            yield case('b2d', s_(s), b=b)
        # one illegal character at a random position
        for s in strs[:: (1 if thorough else 7)]:
            if len(s) <= 10:
                ch = rng.choice(ILLEGAL)
                if ch.upper() in al.upper() or ch in al:
                    continue
                k = rng.randint(0, len(s))
                yield case('b2d', s_(s[:k] + ch + s[k:]), b=b)
        for ch in ILLEGAL:
            if ch in al:
                continue
            for s in (ch, ch + '1', '1' + ch, '1' + ch + '0', '0' + ch + '1'):
                yield case('b2d', s_(s), b=b)
        for s in ('0b11', '0B11', '0o17', '0O17', '0x1F', '0X1f', '1_0', ' 1', '1 ', '+1', '-1', '１'):
            yield case('b2d', s_(s), b=b)
        # numeric operands (digits read as a string), other kinds
        for v in ['n:0/1', 'n:1/1', 'n:10/1', 'n:11/1', 'n:777/1', 'n:1111111111/1', 'n:7777777777/1',
                  'n:9999999999/1', 'n:11111111111/1', 'n:-1/1', 'n:7/2', 'n:2/1', 'n:8/1', 'n:19/1', 'z', 's:',
                  'b:1', 'b:0'] + ['e:' + t for t in core.TAG_ERRS]:
            yield case('b2d', v, b=b)
        # numeric operands arrive as int or as float (cell values are floats): digit strings read as numbers,
        # incl. ones ending in 0 and the 10-digit sign-bit patterns
        nums = {0, 1, 10, 100, 101, 110, 1010, 1000000000, 1111111110, int(al[-1] * 10) if b != 16 else 9999999999}
        dec_al = [ch for ch in al if ch.isdigit()]
        for _ in range(600 if thorough else 60):
            nums.add(int(''.join(rng.choice(dec_al) for _ in range(rng.randint(1, 10)))))
        for n in sorted(nums):
            yield case('b2d', n_(n), b=b, fl=True)
            yield case('b2d', n_(n), b=b)
    for (bi, bo) in FN_B2B:
        for n in (0, 10, 1010, 1000000000, 1111111110, 7770, 100):
            if all(ch in ALPHA[bi] for ch in str(n)):
                yield case('b2b', n_(n), bi=bi, bo=bo, fl=True)
    yield from twin_cases()
    # --- base to base
    for (bi, bo) in FN_B2B:
        al = ALPHA[bi]
        strs = {'0', '1', al[-1] * 10, al[1] + al[0] * 9, al[-1] * 3, al[-1] * 11}
        for _ in range(1500 if thorough else 150):
            strs.add(''.join(rng.choice(al) for _ in range(rng.randint(1, 10))))
        for s in sorted(strs):
            yield case('b2b', s_(s), bi=bi, bo=bo)
            yield case('b2b', s_(s), places=n_(rng.randint(0, 11)), bi=bi, bo=bo)
        for v in ['z', 's:', 'b:1', 'n:11/1', 'n:7/2', 'e:na', s_('1 '), s_('0b1'), s_('g')]:
            for p in (None, 'n:3/1', s_('a')):
                yield case('b2b', v, places=p, bi=bi, bo=bo)


TWINS = [('b:1', 'n:1/1'), ('b:0', 'n:0/1'), ('b:1', 'n:1/1f'), ('b:0', 'n:0/1f'), ('n:1/1', 'n:1/1f'), ('z', 'n:0/1'),
         ('z', 'b:0'), ('s:49', 'n:1/1'), ('s:48', 'n:0/1'), ('s:49,48', 'n:10/1'), ('s:', 'z')]


def twin_cases():
    """consecutive calls whose operands are == in Python but differ in type (caches keyed on value show up here)"""
    def mk(op, tok, **kw):
        fl = tok.endswith('f')
        return case(op, tok[:-1] if fl else tok, fl=fl, **kw)
    for a, b in TWINS:
        for x, y in ((a, b), (b, a)):
            for base in BASES:
                for t in (x, y, x):
                    yield mk('b2d', t, b=base)
                for t in (x, y, x):
                    yield mk('d2b', t, b=base)
                for t in (x, y, x):
                    yield mk('d2b', t, b=base, places='n:4/1')
            for (bi, bo) in FN_B2B:
                for t in (x, y, x):
                    yield mk('b2b', t, bi=bi, bo=bo)
                for t in (x, y, x):
                    yield mk('b2b', t, bi=bi, bo=bo, places='n:10/1')


def _arg(c):
    v = _py(c['val'])
    if c.get('float') and isinstance(v, int):
        v = float(v)
    return v


def impl(c):
    v = _arg(c)
    extra = ()
    if 'places' in c:
        extra = (_py(c['places']),)
    if c['op'] == 'b2d':
        return core.enc(pyc.lib_call(FN_B2D[c['b']], v))
    if c['op'] == 'd2b':
        return core.enc(pyc.lib_call(FN_D2B[c['b']], v, *extra))
    if c['op'] == 'b2b':
        return core.enc(pyc.lib_call(FN_B2B[(c['bi'], c['bo'])], v, *extra))
    raise ValueError(c['op'])


def model_lines(c):
    extra = ' ' + c['places'] if 'places' in c else ''
    if c['op'] == 'b2d':
        return [f"c18 b2d {c['b']} {c['val']}"]
    if c['op'] == 'd2b':
        return [f"c18 d2b {c['b']} {c['val']}{extra}"]
    return [f"c18 b2b {c['bi']} {c['bo']} {c['val']}{extra}"]


def _is_py_int_quirk(tok):
    """decimal text that Python's int() reads but that is not a plain [+-]digits string"""
    if not tok.startswith('s:') or tok == 's:':
        return False
    s = core.dec(tok)
    import re
    return not re.fullmatch(r'[+-]?[0-9]+', s)


def governed(c):
    # the property fixes every outcome except how *decimal text* given to DEC2x / places is read (Python's int())
    if c['op'] == 'd2b' and _is_py_int_quirk(c['val']):
        return False
    if 'places' in c and c['places'] and _is_py_int_quirk(c['places']):
        return core.dec(c['places']) == '' or not _reads_as_int(core.dec(c['places']))
    return True


def _reads_as_int(s):
    try:
        int(s)
        return True
    except ValueError:
        return False


def oracles(results):
    """property relations over implementation outputs only"""
    d2b = {}
    for r in results:
        c = r.case
        if r.impl.startswith('!'):
            yield c, f'{c["op"]} raised/returned a non-Excel value: {r.impl}'
            continue
        if c['op'] == 'd2b' and 'places' not in c and c['val'].startswith('n:') and c['val'].endswith('/1'):
            d2b[(c['b'], int(core.dec(c['val'])))] = r
    # round trip through the implementation itself
    for (b, i), r in d2b.items():
        m = MASK[b]
        if -m <= i < m:
            if not r.impl.startswith('s:'):
                yield r.case, f'DEC2x({i}) in range did not return text: {core.show(r.impl)}'
                continue
            s = core.dec(r.impl)
            back = core.enc(pyc.lib_call(FN_B2D[b], s))
            if back != f'n:{i}/1':
                yield r.case, f'x2DEC(DEC2x({i})) = {core.show(back)}'
            if i < 0 and len(s) != 10:
                yield r.case, f'negative {i} not rendered with 10 digits: {s!r}'
        elif r.impl != 'e:num':
            yield r.case, f'DEC2x({i}) out of range gave {core.show(r.impl)}'
    # C18_output_alphabet / C18_injective on implementation outputs
    seen = {}
    for (b, i), r in d2b.items():
        m = MASK[b]
        if -m <= i < m and r.impl.startswith('s:'):
            s = core.dec(r.impl)
            if not (1 <= len(s) <= 10 and all(ch in ALPHA[b][:b] for ch in s)):
                yield r.case, f'DEC2x({i}) is not 1..10 upper-case digits of base {b}: {s!r}'
            j = seen.setdefault((b, s), i)
            if j != i:
                yield r.case, f'DEC2x({i}) and DEC2x({j}) give the same text {s!r} in base {b}'
    for r in results:
        c = r.case
        if c['op'] == 'b2d' and c['val'].startswith('s:') and c['val'] != 's:':
            s = core.dec(c['val'])
            legal = all(ch in ALPHA[c['b']] for ch in s)
            if (not legal or len(s) > 10) and r.impl != 'e:num':
                yield c, f'x2DEC({s!r}) outside alphabet/length gave {core.show(r.impl)}'
            if legal and len(s) <= 10:           # C18_decode_in_range
                m = MASK[c['b']]
                ok = r.impl.startswith('n:') and r.impl.endswith('/1') and -m <= int(core.dec(r.impl)) < m
                if not ok:
                    yield c, f'x2DEC({s!r}) of a legal text is not an integer of the signed range: {core.show(r.impl)}'
        if (c['op'] == 'd2b' and 'places' in c and c['val'].startswith('n:') and c['val'].endswith('/1')
                and r.impl.startswith('s:')):    # C18_places_roundtrip
            i, s = int(core.dec(c['val'])), core.dec(r.impl)
            if len(s) <= 10:
                back = core.enc(pyc.lib_call(FN_B2D[c['b']], s))
                if back != f'n:{i}/1':
                    yield c, f'x2DEC(DEC2x({i}, places)) = {core.show(back)} via {s!r}'


def finding_key(c, impl_out, model_out):
    return None


def nontrivial(c):
    return c['val'].startswith('n:') or (c['val'].startswith('s:') and c['val'] != 's:')


def bucket(c):
    if c['op'] == 'b2d':
        if c['val'].startswith('s:') and c['val'] != 's:':
            s = core.dec(c['val'])
            if not all(ch in ALPHA[c['b']] for ch in s):
                return 'b2d:illegal'
        return 'b2d'
    if c['op'] == 'd2b':
        if 'places' in c and c['places']:
            return 'd2b:places'
        if c['val'].startswith('n:') and c['val'].endswith('/1'):
            i = int(core.dec(c['val']))
            if not (-MASK[c['b']] <= i < MASK[c['b']]):
                return 'd2b:out-of-range'
            if i < 0:
                return 'd2b:negative'
        return 'd2b'
    return 'b2b'
